module verifhook

go 1.21
