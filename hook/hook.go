// Package verifhook is the only thing the rewritten gotree sources import. Every entry point is a
// nil check when no simulator is installed, so the instrumented module behaves like the product.
package verifhook

import (
	"os"
	"runtime/debug"
	"sort"
	"strconv"
	"time"
)

// Simulator is implemented by the simulation harness.
type Simulator interface {
	Yield(site, kind string)
	Spawn(site string) int
	GoStart(id int)
	GoEnd()
	Panicked(v any, stack []byte)
	Locked(d int)
	Now() time.Time
	Exit(code int)
	Tick()
	MapSeed() (uint64, bool)
}

// Sim is set by the harness before any goroutine of a run exists and is not reset while they live.
var Sim Simulator

// envSim gives a separate OS process (the instrumented gotree binary) the two seams that make sense
// there: map-iteration order (VERIF_MAPSEED) and the clock (VERIF_EPOCH). Everything else is real.
type envSim struct {
	mapSeed uint64
	epoch   int64
	hasTime bool
}

func (envSim) Yield(site, kind string)      {}
func (envSim) Spawn(site string) int        { return 0 }
func (envSim) GoStart(id int)               {}
func (envSim) GoEnd()                       {}
func (envSim) Panicked(v any, stack []byte) { panic(v) }
func (envSim) Locked(d int)                 {}
func (e envSim) Now() time.Time {
	if e.hasTime {
		return time.Unix(e.epoch, 0).UTC()
	}
	return time.Now()
}
func (envSim) Exit(code int)             { os.Exit(code) }
func (envSim) Tick()                     {}
func (e envSim) MapSeed() (uint64, bool) { return e.mapSeed, true }

func init() {
	ms := os.Getenv("VERIF_MAPSEED")
	if ms == "" {
		return
	}
	e := envSim{}
	e.mapSeed, _ = strconv.ParseUint(ms, 10, 64)
	if ep := os.Getenv("VERIF_EPOCH"); ep != "" {
		e.epoch, _ = strconv.ParseInt(ep, 10, 64)
		e.hasTime = true
	}
	Sim = e
}

//go:norace
func Yield(site, kind string) {
	if s := Sim; s != nil {
		s.Yield(site, kind)
	}
}

//go:norace
func Spawn(site string) int {
	if s := Sim; s != nil {
		return s.Spawn(site)
	}
	return 0
}

//go:norace
func GoStart(id int) {
	if s := Sim; s != nil {
		s.GoStart(id)
	}
}

// GoEnd is deferred first in every goroutine body, so it runs last. recover() must be called here
// (directly in the deferred function) to see a panic of the goroutine.
//
//go:norace
func GoEnd() {
	s := Sim
	if s == nil {
		return
	}
	if p := recover(); p != nil {
		s.Panicked(p, debug.Stack())
	}
	s.GoEnd()
}

// Scheduling reports whether a simulator that decides which goroutine runs is installed.
//
//go:norace
func Scheduling() bool {
	if s, ok := Sim.(interface{ Scheduling() bool }); ok {
		return s.Scheduling()
	}
	return false
}

//go:norace
func Locked(d int) {
	if s := Sim; s != nil {
		s.Locked(d)
	}
}

//go:norace
func Now() time.Time {
	if s := Sim; s != nil {
		return s.Now()
	}
	return time.Now()
}

//go:norace
func Exit(code int) {
	if s := Sim; s != nil {
		s.Exit(code) // panics with a sentinel
	}
	os.Exit(code)
}

//go:norace
func Tick() {
	if s := Sim; s != nil {
		s.Tick()
	}
}

type ordered interface {
	~string | ~int | ~int8 | ~int16 | ~int32 | ~int64 | ~uint | ~uint8 | ~uint16 | ~uint32 | ~uint64 | ~uintptr
}

// MapKeys returns the keys of m: in native order without a simulator (or without a map seed),
// otherwise sorted and then permuted by a generator derived from the map seed and the key count.
func MapKeys[K ordered, V any](m map[K]V) []K {
	keys := make([]K, 0, len(m))
	for k := range m {
		keys = append(keys, k)
	}
	// never the order of the runtime: with statement-counted pre-emption the number of iterations a loop over a map needs before
	// it finds what it looks for moves every later pre-emption point, and a run would not replay
	sort.Slice(keys, func(i, j int) bool { return keys[i] < keys[j] })
	s := Sim
	if s == nil {
		return keys
	}
	seed, ok := s.MapSeed()
	if !ok {
		return keys
	}
	x := seed*0x9E3779B97F4A7C15 + uint64(len(keys)) | 1
	for i := len(keys) - 1; i > 0; i-- {
		x ^= x << 13
		x ^= x >> 7
		x ^= x << 17
		j := int(x % uint64(i+1))
		keys[i], keys[j] = keys[j], keys[i]
	}
	return keys
}
