#!/bin/bash
# confirmseed.sh <dir with patch.diff + demo *_test.go>: in a scratch worktree of /repo confirm that the change builds,
# the pinned suite passes with it, the demonstration fails with it and passes without it. Writes <dir>/confirm.txt.
set -u
D=$(readlink -f $1); DEMODIR=${2:-demo}
export GOFLAGS=-mod=mod GOPROXY=off GOSUMDB=off
W=/tmp/wt/confirm_$$
git -C /repo worktree add -q --detach $W HEAD || exit 2
trap "git -C /repo worktree remove --force $W >/dev/null 2>&1" EXIT
cd $W
git apply $D/patch.diff || { echo "patch does not apply" > $D/confirm.txt; exit 1; }
go build ./... || { echo "does not build" > $D/confirm.txt; exit 1; }
SUITE=fail
for try in 1 2 3; do   # tests/TestEdgeNeighbor is flaky on the pinned tree itself (about 1 run in 10)
  if go test -vet=off -count=1 ./... > $D/suite_with_patch.log 2>&1; then SUITE=pass; break; fi
  grep -q "^--- FAIL" $D/suite_with_patch.log && ! grep "^--- FAIL" $D/suite_with_patch.log | grep -vq TestEdgeNeighbor || break
done
mkdir -p $DEMODIR
cp $D/*_test.go $DEMODIR/ 2>/dev/null
for f in $D/*; do case "$f" in *.go|*patch.diff|*README.txt|*.log|*confirm.txt|*meta.json) ;; *) [ -f "$f" ] && cp "$f" $DEMODIR/ ;; esac; done
go test -vet=off -count=1 ./$DEMODIR/ > $D/demo_with_patch.log 2>&1; WITH=$?
git apply -R $D/patch.diff
go test -vet=off -count=1 ./$DEMODIR/ > $D/demo_without_patch.log 2>&1; WITHOUT=$?
echo "suite_with_patch=$SUITE demo_with_patch_exit=$WITH demo_without_patch_exit=$WITHOUT" | tee $D/confirm.txt
