#!/usr/bin/env python3
"""Prints the markdown table of DESIGN.md §12.6 from /verif/seeded/*/meta.json and the one-line descriptions below."""
import json, os, glob
DESC = {
 "C02-m1": ("ReadUntilSemiColon scans back to ln[-1] on a blank-only line (panic in the reader goroutine)", "a line of blanks in a multi-tree stream"),
 "C02-m2": ("Nexus parseTrees no longer stops at EOF (endless loop)", "input ending inside a TREE statement"),
 "C02-m3": ("PhyloXML cladeToTree dereferences the nil branch of the root clade", "root clade with branch_length / confidence"),
 "C02-n1": ("Newick parser adds a comment to a nil node", "`(a,b))[c];` — surplus `)` directly followed by a comment"),
 "C02-n2": ("Nexus DATA block pre-allocates by the declared NTAX", "absurd NTAX (> 2^44): makeslice panic / out of memory"),
 "C02-n3": ("Nextstrain children become pointers; JSON null child dereferenced", "`\"children\":[null]`"),
 "C03-m1": ("removeTip connects the suppressed pseudo-root's neighbours in the wrong direction", "unrooted 3-neighbour root, pruned tip at the root, tip before inner node"),
 "C03-m2": ("UnRoot tests Tip() after detaching the node: a tip becomes root", "rooted tree whose first root child is a tip"),
 "C03-m3": ("Newick writer drops the parentheses of a single-child inner node", "re-rooting a rooted tree at an inner node"),
 "C03-n1": ("NNI caches the index of n2 in n1's neighbour list at creation", "Apply; sort/rotate children; Undo on the kept object"),
 "C03-n2": ("RerootMidPoint takes SetRoot instead of Reroot when the midpoint falls exactly on a node", "tie of path lengths (round lengths)"),
 "C03-n3": ("RerootOutGroup takes the outgroup ancestor as both ends of the root branch", "outgroup = everything but one subtree of the pseudo-root"),
 "C04-m1": ("clearBitSetsRecur reuses longer bitsets", "index; remove tips; re-index"),
 "C04-m2": ("hashmap.rehash uses the doubling shortcut", "initial capacity not a power of two + a resize"),
 "C04-m3": ("Edge.HashCode orientation-dependent for n/2|n/2 splits", "balanced split seen from both orientations"),
 "C04-n1": ("SameBipartition rejects tip vs. non-tip branches of the same trivial split", "rooted tree with a tip under the root"),
 "C04-n2": ("UpdateTipIndex returns early when names and count are unchanged (cooperates with InsertIdenticalTip)", "index; insert identical tips; re-index"),
 "C04-n3": ("Quartet.Compare: one && became ||", "two quartets sharing three taxa in one arrangement"),
 "C08-m1": ("Edge.HashCode orientation-dependent for balanced splits", "even taxa, shared balanced split, opposite rooting"),
 "C08-m2": ("Compare hoists the per-edge `ok` flag out of the loop", "tips=true and a compared-only inner split"),
 "C08-m3": ("CompareWeighted reuses result buffers across the trees of one worker", "two trees handled by one worker, record read after the next started"),
 "C08-n1": ("SortedTips compares numerically when both names are integers (not a consistent order)", "names mixing 2, 10, 1a and different child order"),
 "C08-n2": ("taxon sets compared by a hash of the concatenated sorted names", "different sets with the same concatenation (A,BC vs AB,C)"),
 "C08-n3": ("tax_hash shares one package-level hasher between workers", ">= 2 workers inside tax_hash at once"),
 "C09-m1": ("Edge.HashCode orientation-dependent for balanced splits", "balanced split, opposite orientation in two trees"),
 "C09-m2": ("lower bound ceil(cutoff·n)−1", "frequency exactly on the threshold"),
 "C09-m3": ("tip mean length written through a cached, later orphaned, edge", "tip under a kept inner split, lengths differing between trees"),
 "C09-n1": ("HashEquals ignores the last 64-bit word when the taxon count is a multiple of 64", "exactly 64 / 128 taxa and a bucket collision"),
 "C09-n2": ("rooted inputs handled by skipping the second root branch instead of UnRoot", "first tree rooted with a tip as second root child"),
 "C09-n3": ("tip-set check weakened to `len > n`", "a tree missing taxa (not first)"),
 "C10-m1": ("Edge.HashCode orientation-dependent for balanced splits", "balanced reference branch, bootstrap tree rooted on the other side"),
 "C10-m2": ("MinTransferDist reuses a package-level buffer across worker goroutines", "TBE with > 1 thread and two traversals overlapping"),
 "C10-m3": ("CompareTipIndexes looks names up in its own map", "bootstrap tree with one renamed taxon"),
 "C10-n1": ("TBE splits reference branches statically, dropping the remainder", "cpu >= 4, len(edges) % cpu != 0, inner branch in the tail"),
 "C10-n2": ("FBP stops scanning when 'all bootstrap branches were found'", "rooted reference, unrooted bootstrap tree that is a contraction of it"),
 "C10-n3": ("SortedTips comparator inconsistent for mixed numeric / text names", "names 2, 10, 10a and different child orders"),
 "C11-m1": ("CompareWeighted: compEdges shared by the workers", ">= 2 threads, two trees in flight"),
 "C11-m2": ("FBP worker returns without wg.Done on the taxon-mismatch path", "one mismatched bootstrap tree (hang)"),
 "C11-m3": ("Compare shadows inerr: the mismatch never reaches the record", "taxon-mismatched compared tree"),
 "C11-n1": ("TBE moved-taxa tally updated outside the mutex", "--moved-taxa, >= 2 threads, two deep branches sharing a moved taxon"),
 "C11-n2": ("FBP setErr returns with the mutex held", ">= 3 bad trees and >= 3 workers (hang)"),
 "C11-n3": ("Compare calls wg.Add(cpus) after launching the workers", "a worker finishing before the caller reaches Add (fewer trees than threads)"),
 "C13-m1": ("Rename re-registers renamed nodes in the name index", "translate table with integer tip names"),
 "C13-m2": ("ReadUntilSemiColon trims spaces but not tabs after ';'", "TAB after a tree's ';'"),
 "C13-m3": ("PhyloXML IterateTrees reuses one *Tree", ">= 2 phylogenies through the channel reader"),
 "C13-n1": ("Nexus AddTree keeps the trees sorted by name", ">= 11 trees (tree10 < tree2)"),
 "C13-n2": ("PhyloXML confidence 0 read as absent", "support exactly 0"),
 "C13-n3": ("Nexus tree-string rebuild forgets NUMERIC tokens", "translate + no lengths + integer tip as middle child"),
 "C15-m1": ("CopyNode aliases the comment slice", "ClearComments then AddComment on one twin"),
 "C15-m2": ("removeSingleNodes adds the length only when both are > 0", "single-child node above a zero-length branch"),
 "C15-m3": ("InsertIdenticalTips filters the caller's group in place", "same group list used on a clone and then on the original"),
 "C15-n1": ("CopyEdge shares the bitset; clearBitSets refills in place", "indexed source, clone, re-index one twin with the same tip count"),
 "C15-n2": ("Clone copies the tip index map (pointing at the source's nodes)", "graft by tip name as the first edit of a clone of an indexed tree"),
 "C15-n3": ("CopyEdge copies support only when > 0", "support exactly 0"),
 "C17-m1": ("Rearrange hands out one nni object twice with `cross` flipped", "proposals collected first, applied afterwards"),
 "C17-m2": ("Apply rejects exchanges next to the degree-2 root", "rooted tree, branch below a root child"),
 "C17-m3": ("Undo restores the central support only when > 0", "inner branch with support exactly 0"),
 "C17-n1": ("tip-tip exchange swaps names instead of re-linking branches", "two exchanged tips with different pendant lengths"),
 "C17-n2": ("Rearrange collects branches in a package-level buffer", "an enumeration nested in the callback (or concurrent ones)"),
 "C17-n3": ("cmd nni accumulates neighbours in a buffer that is never reset", ">= 2 trees in one `gotree nni` call"),
 "C18-m1": ("Rename re-registers renamed nodes (map-order dependent)", "chained rename map / numeric tips with translate"),
 "C18-m2": ("rand.Seed skipped when the seed equals the previous one", "two runs with the same --seed in one process"),
 "C18-m3": ("FBP counts trees with a non-atomic ntrees++", ">= 2 threads (lost update)"),
 "C18-n1": ("tip hashes from hash/maphash with a per-process random seed", "two processes; consensus child order"),
 "C18-n2": ("LCA picks its temporary root while ranging over a map", "reroot outgroup with a non-monophyletic outgroup"),
 "C18-n3": ("asr scratch buffer aliases goalign's IUPAC table", "nucleotide asr, protein asr, nucleotide asr again in one process"),
}
rows = []
for mp in sorted(glob.glob("/verif/seeded/*/meta.json")):
    m = json.load(open(mp))
    sid = m["id"]
    d = DESC.get(sid, ("", ""))
    det = m["detection"]["result"].get("quick", {})
    cls = ", ".join(det.get("classes", [])[:3]) + (" …" if len(det.get("classes", [])) > 3 else "")
    first = m["detection"]["first_version_of_the_check"]
    first = "caught" if first == "caught" else "missed, then caught after strengthening"
    rows.append("| %s | %s | %s | %s | %s |" % (sid, d[0], d[1], ("`%s`" % cls) if det.get("violation_reported") else "NOT DETECTED", first))
print("| seeded change | what was changed | what it needs | caught by (quick tier, classes) | first version of the check |")
print("|---|---|---|---|---|")
print("\n".join(rows))
