#!/bin/bash
# evalseed.sh <PROP> <dir with patch.diff + demo files> [tier] [extra check args...]
# 1. confirms the seeded change in a scratch worktree (builds, pinned suite passes, demo fails with / passes without),
# 2. runs the registered check of <PROP> against a scratch worktree carrying the patch (VERIF_REPO), never against /repo.
# Output: one summary line + logs under <dir>/eval/.
set -u
P=$1; D=$(readlink -f $2); TIER=${3:-quick}; shift; shift; shift || true
export GOFLAGS=-mod=mod GOPROXY=off GOSUMDB=off
W=/tmp/wt/eval_$$
mkdir -p $D/eval
git -C /repo worktree add -q --detach $W HEAD || exit 2
cleanup() { git -C /repo worktree remove --force $W >/dev/null 2>&1; rm -rf /var/tmp/verif-scratch/eval_$$; }
trap cleanup EXIT
cd $W
if [ "${SKIP_CONFIRM:-}" = "" ]; then
  git apply $D/patch.diff || { echo "SEED $P $D: patch does not apply"; exit 2; }
  go build ./... > $D/eval/build.log 2>&1 || { echo "SEED $P $D: does not build"; exit 2; }
  go test -vet=off -count=1 ./... > $D/eval/suite.log 2>&1; SUITE=$?
  echo "suite_with_patch_exit=$SUITE" > $D/eval/confirm.txt
else
  git apply $D/patch.diff || { echo "SEED $P $D: patch does not apply"; exit 2; }
fi
VERIF_EVIDENCE_DIR=$D/eval/evidence VERIF_REPLAY_OUT=$D/eval/replays_raw VERIF_REPO=$W VERIF_SCRATCH=/var/tmp/verif-scratch/eval_$$ ${VERIF_HOME:-/verif}/check $P --tier $TIER "$@" > $D/eval/check_$TIER.log 2>&1; RC=$?
CLS=$(grep -A1 "^VIOLATION" $D/eval/check_$TIER.log | grep "class:" | sed 's/ *class: //' | tr '\n' ' ')
echo "SEED $P $(basename $D) tier=$TIER check_exit=$RC classes: $CLS"
# keep the replay files of the detection next to the seed
if [ $RC -eq 1 ]; then mkdir -p $D/eval/replays; for f in $(grep "^VIOLATION" $D/eval/check_$TIER.log | sed 's/.*replay=//'); do cp $f $D/eval/replays/ 2>/dev/null; done; fi
exit 0
