#!/usr/bin/env python3
"""Copies confirmed seeded changes from a sub-agent's output directory into /verif/seeded/<id>/ and writes meta.json.
usage: mkseeded.py <outroot> <wave> <PROP:mN> ...   (outroot/<PROP>_out/<mN>/ holds patch.diff, demo, README.txt, confirm.txt, eval/)"""
import json, os, re, shutil, sys

outroot, wave = sys.argv[1], sys.argv[2]
MISSED_FIRST = {
    "C10-m2": "missed by the plain binary of the first version (hooks only at channel/lock/shared-variable statements never pre-empt a worker inside MinTransferDist); caught after counted pre-emption points and time slicing inside callee code were added (DESIGN §12.2); the C11 race run caught it from the start",
    "C13-m2": "missed: the generated streams had blanks and tabs on blank lines only; caught after blanks/tabs after a tree's ';' were added to the stream generator and to the corpus",
    "C18-m1": "missed: no template renamed with a chained map or used numeric tip names with a translate table; caught after the templates rename-chain, rename-chain-internal, reformat-nexus-translate-numeric, reformat-newick-from-numeric-nexus were added (C13 caught the same change from the start)",
    "C18-m3": "missed: a lost update inside one statement cannot be produced by a statement-granular scheduler; caught after the threaded templates were also run in the -race binary (engine c18thr); the C11 race run caught it from the start",
    "C02-m3": "missed: no corpus document had a branch_length / confidence on the root clade; caught after the corpus was extended with legal-but-unusual documents",
    "C17-m1": "missed: proposals were only applied inside the callback; caught after the collected-then-applied mode was added",
}
for spec in sys.argv[3:]:
    prop, m = spec.split(":")
    src = os.path.join(outroot, prop + "_out", m)
    sid = "%s-%s%s" % (prop, wave, m)
    dst = os.path.join("/verif/seeded", sid)
    os.makedirs(dst, exist_ok=True)
    for f in os.listdir(src):
        p = os.path.join(src, f)
        if os.path.isfile(p) and not f.endswith(".log") and f not in ("confirm.txt",):
            shutil.copy(p, dst)
    readme = open(os.path.join(src, "README.txt")).read() if os.path.exists(os.path.join(src, "README.txt")) else ""
    confirm = open(os.path.join(src, "confirm.txt")).read().strip() if os.path.exists(os.path.join(src, "confirm.txt")) else "not confirmed"
    det = {}
    for tier in ("quick", "thorough"):
        lp = os.path.join(src, "eval", "check_%s.log" % tier)
        if os.path.exists(lp):
            log = open(lp).read()
            classes = re.findall(r"^  class: (.*)$", log, re.M)
            det[tier] = {"violation_reported": "VIOLATION property=%s" % prop in log, "classes": sorted(set(classes)),
                         "check_error": "CHECK-ERROR" in log}
    files = sorted(f for f in os.listdir(dst) if f != "meta.json")
    meta = {
        "id": sid, "property": prop, "wave": wave,
        "origin": "written by an independent sub-agent that was given only the text of the property and its own scratch worktree of /repo (nothing from /verif)",
        "patch": "patch.diff", "demonstration": [f for f in files if f.endswith("_test.go")], "other_files": [f for f in files if not f.endswith("_test.go") and f not in ("patch.diff", "README.txt")],
        "what_it_breaks_and_needs": readme[:2500],
        "confirmed_by_me": {"how": "tools/confirmseed.sh in a fresh scratch worktree of /repo: go build, pinned suite with the change (re-run up to 3 times only if the sole failure is the "
                                   "pre-existing flaky tests/TestEdgeNeighbor), demonstration with the change (must fail), demonstration without it (must pass)", "result": confirm},
        "detection": {"how": "tools/evalseed.sh <prop> <dir> quick: the registered quick check of the property run against a scratch worktree of /repo carrying the patch (VERIF_REPO), "
                              "VERIF_SEED=1; the violation is only printed after its replay file reproduced it in a fresh process", "result": det,
                      "first_version_of_the_check": MISSED_FIRST.get("%s-%s" % (prop, m) if wave == "" else sid, "caught")},
    }
    json.dump(meta, open(os.path.join(dst, "meta.json"), "w"), indent=1)
    print(sid, confirm, {k: (v["violation_reported"], len(v["classes"])) for k, v in det.items()})
