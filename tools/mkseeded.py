#!/usr/bin/env python3
"""Copies confirmed seeded changes from a sub-agent's output directory into /verif/seeded/<id>/ and writes meta.json.
usage: mkseeded.py <outroot> <wave> <PROP:mN> ...   (outroot/<PROP>_out/<mN>/ holds patch.diff, demo, README.txt, confirm.txt, eval/)"""
import json, os, re, shutil, sys

outroot, wave = sys.argv[1], sys.argv[2]
MISSED_FIRST = {
    "C10-m2": "missed by the plain binary of the first version (hooks only at channel/lock/shared-variable statements never pre-empt a worker inside MinTransferDist); caught after counted pre-emption points and time slicing inside callee code were added (DESIGN §12.2); the C11 race run caught it from the start",
    "C13-m2": "missed: the generated streams had blanks and tabs on blank lines only; caught after blanks/tabs after a tree's ';' were added to the stream generator and to the corpus",
    "C18-m1": "missed: no template renamed with a chained map or used numeric tip names with a translate table; caught after the templates rename-chain, rename-chain-internal, reformat-nexus-translate-numeric, reformat-newick-from-numeric-nexus were added (C13 caught the same change from the start)",
    "C18-m3": "missed: a lost update inside one statement cannot be produced by a statement-granular scheduler; caught after the threaded templates were also run in the -race binary (engine c18thr); the C11 race run caught it from the start",
    "C02-m3": "missed: no corpus document had a branch_length / confidence on the root clade; caught after the corpus was extended with legal-but-unusual documents",
    "C17-m1": "missed: proposals were only applied inside the callback; caught after the collected-then-applied mode was added",
    # second wave
    "C02-n2": "missed: no mutation produced extreme numbers; caught (as a process crash attributed to its case) after the 'extreme number' mutation kind was added",
    "C02-n3": "missed: no corpus document had a JSON null inside a children array; caught after the corpus got documents with nulls, empty elements and wrong value types",
    "C03-n1": "missed: an applied NNI was never kept across other steps; caught after the steps 'nnihold' / 'nniundoheld' were added (the kept object is only used across steps that keep nodes and branches in place)",
    "C08-n1": "missed: all generated taxa were named t0, t1, ...; caught after naming schemes mixing integers, integer+letter and prefix-heavy names were added",
    "C08-n2": "missed: a foreign taxon was always called FOREIGN; caught after the adversarial variant (two names exchanged for two others with the same sorted concatenation) was added",
    "C09-n2": "missed: rooted presentations always had the subtree below the chosen branch as first root child; caught after the order of the two root children was randomised",
    "C10-n3": "missed: see C08-n1 (same change found independently); caught after the naming schemes were added",
    "C13-n1": "missed: at most 6 trees per list; caught after lists of 10..13 trees were added",
    "C15-n2": "missed: the graft step always re-indexed first, which heals the copied index; caught after edits of a freshly copied, already indexed tree were allowed to run without re-indexing",
    "C17-n1": "missed: lengths were not compared after Apply; caught after 'every other branch keeps its length' was added to the per-proposal oracle",
    "C17-n2": "missed: no enumeration was ever started inside the callback; caught after the nested-enumeration mode was added (concurrent enumerations are outside the property's quantifier and are not simulated)",
    "C17-n3": "missed: the command was not run; caught after `gotree nni` on 1..3 trees was added to the check",
    "C11-n1": "missed at the quick budget of the first version (640 race runs; the condition needs two deep branches sharing a moved taxon): caught after the rogue-taxon relation, larger trees for --moved-taxa and a quick race budget of 16 x 1200 runs; the thorough tier caught it before",
    "C11-n2": "not decided by the first version: the worker hung for real (a goroutine blocked in Mutex.Lock is invisible to synctest) until the wall-clock watchdog gave exit 2; caught as a simulated deadlock after lock waits were modelled by the scheduler (DESIGN 12.2) and streams with several faulty trees were added",
    "C11-n3": "only evaluated after the second strengthening round; the first version had no empty streams and no pre-emption inside Compare's launch loop and would have missed it",
    "C18-n1": "found by the first version but reported as exit 2: the two cross-process comparisons were separate classes and the replay, having another random seed, landed in the other class; now one class, replay reproduces",
    # third wave: "first version" = the checks as committed when the wave was launched (a3cfde8), measured by running them on every change
    "C02-k3": "not detected by the C02 check, rightly: the change needs two goroutines indexing trees concurrently, which C02 (quantified over inputs) does not contain; it is a C11 violation (data race). The C11 check as it stood missed it too - every name had been memoised by the sequential reference run or by an earlier case - and catches it since taxon names are salted per case and the threaded run comes first in half of the cases",
    "C04-k2": "missed: quartets were drawn over 6 taxon ids, where no two different sets collide; caught after the enumerated scan of all 4-subsets of 45 ids for colliding hash codes was added",
    "C04-k3": "missed: the index oracle was skipped when the structural check failed; caught since it is evaluated regardless",
    "C08-k1": "missed: trees were always indexed with ReinitIndexes; caught after the history 'indexed, edited in place, re-indexed with UpdateTipIndex / ClearBitSets / UpdateBitSet, CommonEdges' was added",
    "C10-k2": "missed: references were never much less resolved than the bootstrap trees and had at most 10 taxa; caught after star-like references and up to 16 taxa were added (the rehash half of the change alone is a C04 violation and was caught by the C04 check from the start)",
    "C11-k1": "missed: the reader feed was always Newick; caught after Nexus documents were added as a feed",
    "C11-k2": "missed: --rf was not among the option combinations of c11cli; caught after it was added",
    "C13-k1": "missed: the root was never named; caught after named roots were added",
    "C13-k2": "missed: all trees of a list were on the same taxa; caught after heterogeneous lists were added (with the oracle 'all trees or an error')",
    "C18-k2": "missed: states were words; caught after states that are equal as numbers but different as text were added",
    "C18-k3": "missed: brlen setrand was only run with its default flags; caught after --internal=false / --external=false templates were added",
    # fourth wave: "first version" = the checks as committed when the wave came back (before the fourth strengthening round), measured
    "C02-j1": "decided, but only through the wall-clock backstop: the single-tree entry points ran outside the scheduler, the worker hung until its test timeout and the case was attributed as process-crash after 15 minutes; now the stand-in simulator refuses to start goroutines and the case is repeated inside the scheduler: a deadlock verdict in milliseconds",
    "C02-j2": "missed: no corpus stream had more than 10 trees; caught after a 14-tree stream with a malformed 12th tree was added",
    "C04-j2": "not detected and not kept as a violation: the property speaks of indexes that have been (re)computed, and a ReinitIndexes repairs everything",
    "C08-j2": "missed: a lost update inside one statement; caught after race runs were added to the C08 check (the C11 race run caught it before)",
    "C08-j3": "missed: goroutines were never pre-empted inside a critical section; caught (wrong counts, not only a race report) since lock waits are simulated and pre-emption inside critical sections is allowed",
    "C10-j1": "missed: a lost update inside one statement; caught after race runs were added to the C10 check",
    "C10-j3": "missed: the branch above a root child whose split is trivial was left out of every oracle; caught after 'whatever support is written is a number in [0,1]' was added",
    "C13-j2": "not detected and not kept as a violation: a document cut between two phylogenies is not a well-formed input (C13's quantifier)",
    "C13-j3": "not detected and not kept as a violation: needs two Nexus parsers running at the same time, which is neither in C13's quantifier nor done by any gotree command",
    "C15-j1": "missed: the single-tip function was never called and every by-name edit was preceded by a re-index; caught after the step 'InsertIdenticalTip' and the refusal oracle (a by-name edit on a tip that exists, on an index the previous function keeps current, cannot be refused) were added",
    "C15-j2": "missed: donors never had a tip of the replaced name; caught after that donor and the refusal oracle were added",
    "C17-j2": "missed: every enumeration used a new rearranger; caught after one rearranger per case and the 'keep a move, enumerate again' round were added",
    "C17-j3": "missed: no step added tips without re-indexing; caught after GraftTipOnEdge became a step",
    "C18-j1": "missed: the collections of the templates had at most 6 trees; caught after a 16-tree collection with a malformed tree near its end was added",
    "C18-j2": "not a C18 violation in anything C18 controls (file reads have fixed boundaries, the wrong result is the same in every run); it breaks C13 and the C13 check catches it (multi:tree-skipped, roundtrip:newick)",
    "C18-j3": "missed: only commands were run, which prune freshly parsed (un-indexed) trees; caught after library-call templates were added",
    "C02-h1": "missed: no label of the corpus ended with, or consisted of, a blank that only Unicode knows (form feed, vertical tab, U+00A0, U+0085); caught after such documents were added",
    "C02-h2": "missed (exit 2 after the 15-minute backstop, sixteen workers asleep on a real mutex): outside the scheduler a leaked lock was a real hang; caught after the single-goroutine lock-held verdict and the replay by repeated execution were added, and documents with > 12 identical warnings",
    "C08-h2": "missed: compared trees were always parsed from text, never clones of the indexed reference; caught after the history 'index, clone, exchange two tip names, compare' was added",
    "C09-h2": "missed: one same-rank foreign name per faulty case meets the 1/128 bucket coincidence too rarely; caught after the sweep of 40 same-rank names",
    "C09-h3": "missed: every record was its own tree object; caught after identical texts were delivered as one object (collection drawn with replacement)",
    "C10-h1": "missed: generated references carried no supports; caught after references with fractions / percentages and a prior FBP run on the same object were added",
    "C11-h1": "missed: the root of a rooted reference was always in the middle of its branch; caught after uneven root branches were drawn",
    "C13-h1": "missed: names were ASCII; caught after names with multi-byte runes were drawn",
    "C13-h2": "missed: PhyloXML documents were always written by gotree itself (rooted attribute = shape); caught after a document written by the harness with either attribute value was added",
    "C13-h3": "missed: lengths were k/16; caught after lengths with many significant digits (1e-12 .. 1e21) were drawn",
    "C15-h1": "missed: every group given to InsertIdenticalTips had something to insert; caught after a single-member group in front was drawn",
    "C15-h3": "missed: start trees had no support/p-value labels; caught after they were drawn",
    "C17-h3": "missed: names were t<i>; caught after names with '%' were drawn",
    "C18-h2": "missed twice: first because lengths were dyadic (sums exact in any order) and the command prints 12 decimals — non-dyadic lengths and a library call compared bit for bit were added; then because that library template was drawn 4 times in a quick run. Caught after every template got a floor of executions before the seeded search (6 generated inputs, half of them with non-dyadic lengths) and commands that start goroutines are executed under ten further schedules",
    "C18-h3": "missed: no Nextstrain input among the templates; caught after an export with mutations of several genes per branch was added",
    "C03-h2": "not evaluated and not kept as a seeded change: written against the code before the repair 74b6e79 (NNI Undo after the root was moved), which rewrote the lines it changes; the patch no longer applies",
    "C03-h3": "not evaluated and not kept as a seeded change: written against the code before the repair 74b6e79, which rewrote the lines it changes; the patch no longer applies",
    "C17-h1": "not evaluated and not kept as a seeded change: written against the code before the repair 74b6e79 (orientation of the central branch is now derived from the actual root position), the patch no longer applies",
    "C15-g2": "missed: every group was anchored on a tip that existed before the call; caught after a later group anchored on a tip added by an earlier group of the same call was drawn",
    "C15-g3": "missed: SubTree was only called on inner nodes below the root; caught after the relation 'SubTree at the root equals the tree' was added, including trees whose root has a single neighbour",
    "C11-g2": "missed: at most 130 taxa; caught (if at all within the quick budget: about ten cases per run have 1001 or 1025 taxa) after huge cases were added",
    "C11-g3": "missed as exit 2: the reader goroutine spins without reaching a channel operation, so it never came back to the scheduler and the workers ran into the wall-clock backstop; caught after the logical loop budget was applied to every scheduled run (the faulty record made of ';' alone had been added from the author's summary before the measurement)",
    "C09-g1": "missed: no two names differed by case only; caught after such names were drawn",
    "C04-g2": "not detected by the C04 check, rightly: the change needs two goroutines indexing two trees at the same moment, which C04 (quantified over inputs and histories of one tree) does not contain; it is a C11 violation and the C11 check catches it as a data race and as schedule-dependent results of compare / FBP",
    "C13-g1": "missed: the source text was always written with plain decimals; caught after lengths with an upper-case exponent were drawn",
    "C13-g2": "missed: C13 trees had no single-child inner nodes; caught after they were drawn",
    "C17-g1": "missed: a binary tree whose root is a tip (root node with one neighbour) was outside the generator and the reference model, which read the root label as an inner name; caught after trees presented from one of their tips were added to both — which first exposed a genuine defect of the Newick writer on such trees (repaired, 6cc9608)",
    "C18-g1": "missed three times: as exit 2 (1001 goroutines exceeded the 512 the scheduler followed; it now follows 2048 and stops the worker at once beyond); then because no schedule finished a later search before an earlier one and no big tree had two longest paths of exactly the same length that matter; caught after big trees with two very divergent sister taxa (and big trees with unit lengths), the ten-schedule sweep and the 'starve' schedule strategy were added",
    "C18-g2": "missed: the template gave the repeated name together with -f, which makes the command ignore the names of the command line; caught after the template was corrected",
    "C10-g1": "caught — measured after 'indexes left stale by a renaming' had been added from the author's summary; the version before would have missed it",
    "C10-g2": "caught — measured after the pre-used progress tracker had been added from the author's summary; the version before would have missed it",
    "C11-g1": "caught — measured after records with id 0 had been added from the author's summary; the version before would have missed it",
    "C09-g3": "caught — measured after 'indexes left stale by a renaming' had been added from the author's summary; the version before would have missed it",
    "C02-g1": "caught — measured after a document with one-element confidence arrays had been added from the author's summary; the version before would have missed it",
    "C02-g3": "caught — measured after a document with the attribute form of branch_length had been added from the author's summary; the version before would have missed it",
    "C15-g1": "caught — measured after the copy step on trees with thousands of tips had been added from the author's summary; the version before would have missed it",
    "C04-g1": "not kept: the pinned suite fails with it (tests/TestEdgeIndex2) on this 16-core machine, so it is not a change that passes the existing tests",
    "C18-f2": "missed: no text written by a C18 case exceeded 64 KiB (1001 to 1025 tips with short names: about 20 KiB); caught after big trees with long taxon names (75 KiB per tree) were drawn",
    "C18-n3": "only evaluated after the second strengthening round (interfering command between two runs of a template); the first version would have missed it",
}
# changes written for one property that do not break it within its quantifier but break another one (whose check is the one that must catch them)
BREAKS = {"C02-k3": "C11", "C18-j2": "C13", "C04-g2": "C11"}
REJECTED = {"C04-j2", "C13-j2", "C13-j3", "C03-h2", "C03-h3", "C17-h1", "C04-g1"}
for spec in sys.argv[3:]:
    prop, m = spec.split(":")
    src = os.path.join(outroot, prop + os.environ.get("OUTSUFFIX", "_out"), m)
    sid = "%s-%s%s" % (prop, wave, m)
    dst = os.path.join("/verif/seeded_rejected" if sid in REJECTED else "/verif/seeded", sid)
    os.makedirs(dst, exist_ok=True)
    for f in os.listdir(src):
        p = os.path.join(src, f)
        if os.path.isfile(p) and not f.endswith(".log") and f not in ("confirm.txt",):
            shutil.copy(p, dst)
    readme = open(os.path.join(src, "README.txt")).read() if os.path.exists(os.path.join(src, "README.txt")) else ""
    confirm = open(os.path.join(src, "confirm.txt")).read().strip() if os.path.exists(os.path.join(src, "confirm.txt")) else "not confirmed"
    det = {}
    breaks = BREAKS.get("%s-%s" % (prop, m))
    for tier in ("quick", "thorough"):
        lp = os.path.join(src, "eval", "check_%s.log" % tier)
        if breaks and tier == "quick":
            lp = os.path.join(src, "detected_by_%s_check.log" % breaks)
        if os.path.exists(lp):
            log = open(lp).read()
            classes = re.findall(r"^  class: (.*)$", log, re.M)
            det[tier] = {"violation_reported": "VIOLATION property=%s" % (breaks or prop) in log, "classes": sorted(set(classes)),
                         "check_error": "CHECK-ERROR" in log}
    files = sorted(f for f in os.listdir(dst) if f != "meta.json")
    meta = {
        "id": sid, "property": breaks or prop, "written_for_property": prop, "wave": wave,
        "origin": "written by an independent sub-agent that was given only the text of the property and its own scratch worktree of /repo (nothing from /verif)",
        "patch": "patch.diff", "demonstration": [f for f in files if f.endswith("_test.go")], "other_files": [f for f in files if not f.endswith("_test.go") and f not in ("patch.diff", "README.txt")],
        "what_it_breaks_and_needs": readme[:2500],
        "confirmed_by_me": {"how": "tools/confirmseed.sh in a fresh scratch worktree of /repo: go build, pinned suite with the change (re-run up to 3 times only if the sole failure is the "
                                   "pre-existing flaky tests/TestEdgeNeighbor), demonstration with the change (must fail), demonstration without it (must pass)", "result": confirm},
        "detection": {"how": "tools/evalseed.sh <prop> <dir> quick: the registered quick check of the property run against a scratch worktree of /repo carrying the patch (VERIF_REPO), "
                              "VERIF_SEED=1; the violation is only printed after its replay file reproduced it in a fresh process", "result": det,
                      "first_version_of_the_check": MISSED_FIRST.get("%s-%s" % (prop, m), "caught")},
    }
    json.dump(meta, open(os.path.join(dst, "meta.json"), "w"), indent=1)
    print(sid, confirm, {k: (v["violation_reported"], len(v["classes"])) for k, v in det.items()})
