// verifinstr (prototype v2): typed, insert-only AST rewriter that puts simulator hooks into a
// scratch copy of the gotree module.
//
//	verifinstr -dir <scratch module root> [-dense hashmap] [-tick /io/] [-sites sites.json]
package main

import (
	"bytes"
	"encoding/json"
	"flag"
	"fmt"
	"go/ast"
	"go/printer"
	"go/token"
	"go/types"
	"os"
	"path/filepath"
	"sort"
	"strings"

	"golang.org/x/tools/go/packages"
)

const hookImport = "verifhook"

type Site struct {
	ID   string `json:"id"`
	Kind string `json:"kind"`
}

type inst struct {
	p       *packages.Package
	fset    *token.FileSet
	root    string
	counts  map[string]int
	sites   *[]Site
	dense   bool
	pdense  bool
	tick    bool
	used    bool
	timeRep bool
	goDepth int
	shared  map[*types.Var]bool
	tmpN    int
}

func (r *inst) site(n ast.Node) string {
	pos := r.fset.Position(n.Pos())
	rel, err := filepath.Rel(r.root, pos.Filename)
	if err != nil {
		rel = pos.Filename
	}
	return fmt.Sprintf("%s:%d", rel, pos.Line)
}

func str(s string) ast.Expr { return &ast.BasicLit{Kind: token.STRING, Value: fmt.Sprintf("%q", s)} }
func intLit(i int) ast.Expr { return &ast.BasicLit{Kind: token.INT, Value: fmt.Sprint(i)} }

func (r *inst) hook(fn string, args ...ast.Expr) *ast.CallExpr {
	r.used = true
	return &ast.CallExpr{Fun: &ast.SelectorExpr{X: ast.NewIdent("verifhook"), Sel: ast.NewIdent(fn)}, Args: args}
}

func (r *inst) yield(n ast.Node, kind string) ast.Stmt {
	r.counts["yield-"+kind]++
	s := r.site(n)
	*r.sites = append(*r.sites, Site{s, kind})
	return &ast.ExprStmt{X: r.hook("Yield", str(s), str(kind))}
}

func (r *inst) tmp(prefix string) *ast.Ident {
	r.tmpN++
	return ast.NewIdent(fmt.Sprintf("__verif_%s%d", prefix, r.tmpN))
}

func (r *inst) syncMethod(call *ast.CallExpr) string {
	sel, ok := call.Fun.(*ast.SelectorExpr)
	if !ok {
		return ""
	}
	s, ok := r.p.TypesInfo.Selections[sel]
	if !ok {
		return ""
	}
	fn, ok := s.Obj().(*types.Func)
	if !ok || fn.Pkg() == nil || fn.Pkg().Path() != "sync" {
		return ""
	}
	return fn.Name()
}

func isNilNode(n ast.Node) bool {
	switch v := n.(type) {
	case nil:
		return true
	case ast.Stmt:
		return v == nil
	case ast.Expr:
		return v == nil
	case *ast.BlockStmt:
		return v == nil
	}
	return false
}

type facts struct {
	send, recv, closech      bool
	wait, done, lock, unlock bool
	sharedR, sharedW         bool
}

// headerWalk visits the parts of the nodes that execute as part of the statement itself
// (not nested blocks, not function literal bodies).
func headerWalk(nodes []ast.Node, f func(ast.Node) bool) {
	for _, n := range nodes {
		if isNilNode(n) {
			continue
		}
		ast.Inspect(n, func(x ast.Node) bool {
			switch x.(type) {
			case *ast.FuncLit, *ast.BlockStmt:
				return false
			}
			if x == nil {
				return true
			}
			return f(x)
		})
	}
}

func (r *inst) varOf(e ast.Expr) *types.Var {
	for {
		switch x := e.(type) {
		case *ast.ParenExpr:
			e = x.X
			continue
		case *ast.IndexExpr:
			e = x.X
			continue
		case *ast.Ident:
			if v, ok := r.p.TypesInfo.Uses[x].(*types.Var); ok && !v.IsField() {
				return v
			}
			if v, ok := r.p.TypesInfo.Defs[x].(*types.Var); ok && !v.IsField() {
				return v
			}
		}
		return nil
	}
}

func (r *inst) scan(nodes ...ast.Node) (f facts) {
	headerWalk(nodes, func(x ast.Node) bool {
		switch y := x.(type) {
		case *ast.SendStmt:
			f.send = true
		case *ast.UnaryExpr:
			if y.Op == token.ARROW {
				f.recv = true
			}
			if y.Op == token.AND && r.goDepth > 0 {
				if v := r.varOf(y.X); v != nil && r.shared[v] {
					f.sharedW = true
				}
			}
		case *ast.AssignStmt:
			if r.goDepth > 0 {
				for _, l := range y.Lhs {
					if v := r.varOf(l); v != nil && r.shared[v] {
						f.sharedW = true
					}
				}
			}
		case *ast.IncDecStmt:
			if r.goDepth > 0 {
				if v := r.varOf(y.X); v != nil && r.shared[v] {
					f.sharedW = true
				}
			}
		case *ast.Ident:
			if r.goDepth > 0 {
				if v, ok := r.p.TypesInfo.Uses[y].(*types.Var); ok && r.shared[v] {
					f.sharedR = true
				}
			}
		case *ast.CallExpr:
			if id, ok := y.Fun.(*ast.Ident); ok && id.Name == "close" {
				if _, isb := r.p.TypesInfo.Uses[id].(*types.Builtin); isb {
					f.closech = true
				}
			}
			switch r.syncMethod(y) {
			case "Wait":
				f.wait = true
			case "Done":
				f.done = true
			case "Lock", "RLock":
				f.lock = true
			case "Unlock", "RUnlock":
				f.unlock = true
			}
		}
		return true
	})
	return
}

// computeShared: variables declared outside a go-closure and written inside one (anywhere in the file).
func (r *inst) computeShared(file *ast.File) {
	r.shared = map[*types.Var]bool{}
	ast.Inspect(file, func(n ast.Node) bool {
		gs, ok := n.(*ast.GoStmt)
		if !ok {
			return true
		}
		fl, ok := gs.Call.Fun.(*ast.FuncLit)
		if !ok {
			return true
		}
		outside := func(v *types.Var) bool {
			return v != nil && (v.Pos() < fl.Pos() || v.Pos() >= fl.End())
		}
		mark := func(e ast.Expr) {
			if v := r.varOf(e); outside(v) {
				r.shared[v] = true
			}
		}
		ast.Inspect(fl.Body, func(x ast.Node) bool {
			switch y := x.(type) {
			case *ast.AssignStmt:
				for _, l := range y.Lhs {
					mark(l)
				}
			case *ast.IncDecStmt:
				mark(y.X)
			case *ast.UnaryExpr:
				if y.Op == token.AND {
					mark(y.X)
				}
			case *ast.RangeStmt:
				if y.Tok == token.ASSIGN {
					if y.Key != nil {
						mark(y.Key)
					}
					if y.Value != nil {
						mark(y.Value)
					}
				}
			}
			return true
		})
		return true
	})
	r.counts["shared-vars"] += len(r.shared)
}

func (r *inst) list(in []ast.Stmt) []ast.Stmt {
	var out []ast.Stmt
	for _, s := range in {
		out = append(out, r.stmt(s)...)
	}
	return out
}

func (r *inst) block(b *ast.BlockStmt) {
	if b != nil {
		b.List = r.list(b.List)
	}
}

// funcLitsIn rewrites the bodies of function literals found in the header part of n
func (r *inst) funcLitsIn(nodes ...ast.Node) {
	for _, n := range nodes {
		if isNilNode(n) {
			continue
		}
		ast.Inspect(n, func(x ast.Node) bool {
			switch y := x.(type) {
			case *ast.FuncLit:
				saved := r.goDepth
				r.goDepth = 0 // a plain closure is not a goroutine body (conservative)
				r.block(y.Body)
				r.goDepth = saved
				return false
			case *ast.BlockStmt:
				return false
			}
			return true
		})
	}
}

func (r *inst) prependTick(b *ast.BlockStmt) {
	if r.tick {
		r.counts["tick"]++
		b.List = append([]ast.Stmt{&ast.ExprStmt{X: r.hook("Tick")}}, b.List...)
	}
}

func (r *inst) stmt(s ast.Stmt) []ast.Stmt {
	switch x := s.(type) {
	case *ast.BlockStmt:
		r.block(x)
		return []ast.Stmt{x}
	case *ast.LabeledStmt:
		inner := r.stmt(x.Stmt)
		// find the original statement in the produced list and re-attach the label to it
		for i, st := range inner {
			if st == x.Stmt || isSameLoop(st, x.Stmt) {
				x.Stmt = st
				inner[i] = x
				return inner
			}
		}
		// statement was replaced by a block (e.g. go statement): label the block
		x.Stmt = inner[len(inner)-1]
		inner[len(inner)-1] = x
		return inner
	case *ast.IfStmt:
		f := r.scan(x.Init, x.Cond)
		r.funcLitsIn(x.Init, x.Cond)
		r.block(x.Body)
		if x.Else != nil {
			e := r.stmt(x.Else)
			if len(e) == 1 {
				x.Else = e[0]
			} else {
				x.Else = &ast.BlockStmt{List: e}
			}
		}
		return r.wrap(x, f)
	case *ast.ForStmt:
		f := r.scan(x.Init, x.Cond, x.Post)
		r.funcLitsIn(x.Init, x.Cond, x.Post)
		r.block(x.Body)
		r.prependTick(x.Body)
		return r.wrap(x, f)
	case *ast.RangeStmt:
		f := r.scan(x.X)
		r.funcLitsIn(x.X)
		r.block(x.Body)
		if t := r.p.TypesInfo.TypeOf(x.X); t != nil {
			switch u := t.Underlying().(type) {
			case *types.Chan:
				x.Body.List = append([]ast.Stmt{r.yield(x, "recv")}, x.Body.List...)
				f.recv = false
				out := r.wrap(x, f)
				return append(out, r.yield(x, "recvend"))
			case *types.Map:
				if pre, ok := r.rewriteMapRange(x, u); ok {
					f.recv = false
					out := append(pre, r.wrap(x, f)...)
					return out
				}
			}
		}
		r.prependTick(x.Body)
		return r.wrap(x, f)
	case *ast.SwitchStmt:
		f := r.scan(x.Init, x.Tag)
		r.funcLitsIn(x.Init, x.Tag)
		for _, c := range x.Body.List {
			cc := c.(*ast.CaseClause)
			cc.Body = r.list(cc.Body)
		}
		return r.wrap(x, f)
	case *ast.TypeSwitchStmt:
		for _, c := range x.Body.List {
			cc := c.(*ast.CaseClause)
			cc.Body = r.list(cc.Body)
		}
		return []ast.Stmt{x}
	case *ast.SelectStmt:
		for _, c := range x.Body.List {
			cc := c.(*ast.CommClause)
			cc.Body = r.list(cc.Body)
		}
		return []ast.Stmt{r.yield(x, "select"), x, r.yield(x, "selected")}
	case *ast.GoStmt:
		return r.goStmt(x)
	case *ast.DeferStmt:
		r.funcLitsIn(x.Call)
		if m := r.syncMethod(x.Call); m == "Unlock" || m == "RUnlock" {
			body := &ast.BlockStmt{List: []ast.Stmt{&ast.ExprStmt{X: x.Call}, &ast.ExprStmt{X: r.hook("Locked", intLit(-1))}}}
			x.Call = &ast.CallExpr{Fun: &ast.FuncLit{Type: &ast.FuncType{Params: &ast.FieldList{}}, Body: body}}
			r.counts["defer-unlock"]++
		}
		return []ast.Stmt{x}
	case *ast.DeclStmt, *ast.EmptyStmt, *ast.BranchStmt:
		r.funcLitsIn(s)
		return []ast.Stmt{s}
	default:
		f := r.scan(s)
		r.funcLitsIn(s)
		return r.wrap(s, f)
	}
}

func isSameLoop(a, b ast.Stmt) bool { return a == b }

func (r *inst) goStmt(x *ast.GoStmt) []ast.Stmt {
	r.counts["go"]++
	gid := r.tmp("gid")
	var pre []ast.Stmt
	fl, ok := x.Call.Fun.(*ast.FuncLit)
	if !ok {
		// go f(a, b)  =>  bind f and args now, run them in a literal
		r.counts["go-nonlit"]++
		r.funcLitsIn(x.Call)
		fv := r.tmp("f")
		pre = append(pre, &ast.AssignStmt{Lhs: []ast.Expr{fv}, Tok: token.DEFINE, Rhs: []ast.Expr{x.Call.Fun}})
		var args []ast.Expr
		for _, a := range x.Call.Args {
			av := r.tmp("a")
			pre = append(pre, &ast.AssignStmt{Lhs: []ast.Expr{av}, Tok: token.DEFINE, Rhs: []ast.Expr{a}})
			args = append(args, av)
		}
		call := &ast.CallExpr{Fun: fv, Args: args, Ellipsis: x.Call.Ellipsis}
		if call.Ellipsis != token.NoPos {
			call.Ellipsis = 1
		}
		fl = &ast.FuncLit{Type: &ast.FuncType{Params: &ast.FieldList{}}, Body: &ast.BlockStmt{List: []ast.Stmt{&ast.ExprStmt{X: call}}}}
		x.Call = &ast.CallExpr{Fun: fl}
	} else {
		for _, a := range x.Call.Args {
			r.funcLitsIn(a)
		}
		r.goDepth++
		r.block(fl.Body)
		r.goDepth--
	}
	head := []ast.Stmt{
		&ast.ExprStmt{X: r.hook("GoStart", gid)},
		&ast.DeferStmt{Call: r.hook("GoEnd")},
	}
	fl.Body.List = append(head, fl.Body.List...)
	s := r.site(x)
	*r.sites = append(*r.sites, Site{s, "spawn"})
	pre = append(pre, &ast.AssignStmt{Lhs: []ast.Expr{gid}, Tok: token.DEFINE, Rhs: []ast.Expr{r.hook("Spawn", str(s))}})
	// the new goroutine may run before its parent takes another step: a decision point right after the go statement
	return []ast.Stmt{&ast.BlockStmt{List: append(append(pre, x), r.yield(x, "spawned"))}}
}

func (r *inst) wrap(s ast.Stmt, f facts) []ast.Stmt {
	var pre, post []ast.Stmt
	if r.dense {
		pre = append(pre, r.yield(s, "stmt"))
	} else if r.pdense {
		pre = append(pre, r.yield(s, "pstmt"))
	}
	if f.sharedR || f.sharedW {
		pre = append(pre, r.yield(s, "shared"))
	}
	if f.send {
		pre = append(pre, r.yield(s, "send"))
		post = append(post, r.yield(s, "sent"))
	}
	if f.closech {
		pre = append(pre, r.yield(s, "close"))
	}
	if f.recv {
		post = append(post, r.yield(s, "recv"))
	}
	if f.wait {
		post = append(post, r.yield(s, "waited"))
	}
	if f.done {
		pre = append(pre, r.yield(s, "done"))
	}
	if f.lock {
		pre = append(pre, r.yield(s, "lock"))
		// a goroutine blocked in Mutex.Lock is invisible to synctest (not a durable block): under a scheduling simulator the
		// statement first waits, parked, until the lock can be taken (probe with TryLock + Unlock, no pre-emption point between
		// the probe and the real Lock), so that a lock that is never released shows as a deadlock of the simulation
		if es, ok := s.(*ast.ExprStmt); ok {
			if call, ok := es.X.(*ast.CallExpr); ok {
				if sel, ok := call.Fun.(*ast.SelectorExpr); ok {
					try, undo := "TryLock", "Unlock"
					if r.syncMethod(call) == "RLock" {
						try, undo = "TryRLock", "RUnlock"
					}
					if m := r.syncMethod(call); m == "Lock" || m == "RLock" {
						probe := &ast.CallExpr{Fun: &ast.SelectorExpr{X: sel.X, Sel: ast.NewIdent(try)}}
						release := &ast.ExprStmt{X: &ast.CallExpr{Fun: &ast.SelectorExpr{X: sel.X, Sel: ast.NewIdent(undo)}}}
						loop := &ast.ForStmt{
							Cond: r.hook("Scheduling"),
							Body: &ast.BlockStmt{List: []ast.Stmt{
								&ast.IfStmt{Cond: probe, Body: &ast.BlockStmt{List: []ast.Stmt{release, &ast.BranchStmt{Tok: token.BREAK}}}},
								r.yield(s, "lockwait"),
							}},
						}
						pre = append(pre, loop)
					}
				}
			}
		}
		post = append(post, &ast.ExprStmt{X: r.hook("Locked", intLit(1))})
	}
	if f.unlock {
		post = append(post, &ast.ExprStmt{X: r.hook("Locked", intLit(-1))})
	}
	if f.sharedW {
		post = append(post, r.yield(s, "sharedw"))
	}
	switch s.(type) {
	case *ast.ReturnStmt:
		post = nil
	}
	out := append(pre, s)
	return append(out, post...)
}

func basicOrdered(t types.Type) bool {
	b, ok := t.Underlying().(*types.Basic)
	return ok && b.Info()&(types.IsInteger|types.IsString) != 0
}

func isBlank(e ast.Expr) bool {
	id, ok := e.(*ast.Ident)
	return ok && id.Name == "_"
}

// for k, v := range m {B}
//
//	=>  __m := m
//	    for _, k := range verifhook.MapKeys(__m) { v, __ok := __m[k]; if !__ok {continue}; B }
func (r *inst) rewriteMapRange(x *ast.RangeStmt, m *types.Map) (pre []ast.Stmt, ok bool) {
	if !basicOrdered(m.Key()) {
		r.counts["maprange-skip-keytype"]++
		return nil, false
	}
	if x.Tok == token.ASSIGN {
		r.counts["maprange-skip-assignform"]++
		return nil, false
	}
	key, val := x.Key, x.Value
	if (key == nil || isBlank(key)) && (val == nil || isBlank(val)) {
		r.counts["maprange-skip-countonly"]++
		return nil, false
	}
	mv := r.tmp("m")
	pre = []ast.Stmt{&ast.AssignStmt{Lhs: []ast.Expr{mv}, Tok: token.DEFINE, Rhs: []ast.Expr{x.X}}}
	if key == nil || isBlank(key) {
		key = r.tmp("k")
	}
	okv := r.tmp("ok")
	var lhs0 ast.Expr = ast.NewIdent("_")
	if val != nil && !isBlank(val) {
		lhs0 = val
	}
	head := []ast.Stmt{
		&ast.AssignStmt{Lhs: []ast.Expr{lhs0, okv}, Tok: token.DEFINE, Rhs: []ast.Expr{&ast.IndexExpr{X: mv, Index: key}}},
		&ast.IfStmt{Cond: &ast.UnaryExpr{Op: token.NOT, X: okv}, Body: &ast.BlockStmt{List: []ast.Stmt{&ast.BranchStmt{Tok: token.CONTINUE}}}},
	}
	x.Key = ast.NewIdent("_")
	x.Value = key
	x.Tok = token.DEFINE
	x.X = r.hook("MapKeys", mv)
	x.Body.List = append(head, x.Body.List...)
	r.counts["maprange"]++
	return pre, true
}

func (r *inst) selectors(f *ast.File) {
	ast.Inspect(f, func(n ast.Node) bool {
		sel, ok := n.(*ast.SelectorExpr)
		if !ok {
			return true
		}
		id, ok := sel.X.(*ast.Ident)
		if !ok {
			return true
		}
		pn, ok := r.p.TypesInfo.Uses[id].(*types.PkgName)
		if !ok {
			return true
		}
		switch pn.Imported().Path() + "." + sel.Sel.Name {
		case "time.Now":
			sel.X = ast.NewIdent("verifhook")
			r.used, r.timeRep = true, true
			r.counts["time.Now"]++
		case "os.Exit":
			sel.X = ast.NewIdent("verifhook")
			r.used = true
			r.counts["os.Exit"]++
		}
		return true
	})
}

func main() {
	dir := flag.String("dir", "", "module root of the scratch copy (rewritten in place)")
	dense := flag.String("dense", "", "comma separated package path suffixes that get a hook before every statement")
	pdense := flag.String("pdense", "", "comma separated package path substrings that get a counted pre-emption point before every statement")
	tick := flag.String("tick", "/io/", "comma separated package path substrings whose loops get Tick()")
	sitesOut := flag.String("sites", "", "write site table (json)")
	flag.Parse()
	root, _ := filepath.Abs(*dir)
	cfg := &packages.Config{Mode: packages.NeedName | packages.NeedFiles | packages.NeedCompiledGoFiles | packages.NeedSyntax | packages.NeedTypes | packages.NeedTypesInfo | packages.NeedImports, Dir: root}
	pkgs, err := packages.Load(cfg, "./...")
	if err != nil {
		fmt.Fprintln(os.Stderr, "load:", err)
		os.Exit(2)
	}
	counts := map[string]int{}
	var sites []Site
	match := func(list, path string) bool {
		for _, s := range strings.Split(list, ",") {
			if s != "" && strings.Contains(path+"/", s) {
				return true
			}
		}
		return false
	}
	for _, p := range pkgs {
		if len(p.Errors) > 0 {
			fmt.Fprintln(os.Stderr, "type errors in", p.PkgPath, p.Errors)
			os.Exit(2)
		}
		for i, f := range p.Syntax {
			r := &inst{p: p, fset: p.Fset, root: root, counts: counts, sites: &sites,
				dense: match(*dense, p.PkgPath), pdense: match(*pdense, p.PkgPath), tick: match(*tick, p.PkgPath)}
			r.computeShared(f)
			r.selectors(f)
			for _, d := range f.Decls {
				switch dd := d.(type) {
				case *ast.FuncDecl:
					if dd.Body != nil {
						r.block(dd.Body)
					}
				case *ast.GenDecl:
					r.funcLitsIn(dd)
				}
			}
			if !r.used {
				continue
			}
			imp := &ast.ImportSpec{Path: &ast.BasicLit{Kind: token.STRING, Value: fmt.Sprintf("%q", hookImport)}}
			f.Decls = append([]ast.Decl{&ast.GenDecl{Tok: token.IMPORT, Specs: []ast.Spec{imp}}}, f.Decls...)
			if r.timeRep {
				f.Decls = append(f.Decls, &ast.GenDecl{Tok: token.VAR, Specs: []ast.Spec{&ast.ValueSpec{Names: []*ast.Ident{ast.NewIdent("_")}, Values: []ast.Expr{&ast.SelectorExpr{X: ast.NewIdent("time"), Sel: ast.NewIdent("Second")}}}}})
			}
			var keep []*ast.CommentGroup
			for _, cg := range f.Comments {
				if cg.End() < f.Package {
					keep = append(keep, cg)
				}
			}
			f.Comments = keep
			var buf bytes.Buffer
			pc := printer.Config{Mode: printer.SourcePos | printer.UseSpaces | printer.TabIndent, Tabwidth: 8}
			if err := pc.Fprint(&buf, p.Fset, f); err != nil {
				fmt.Fprintln(os.Stderr, "print:", p.CompiledGoFiles[i], err)
				os.Exit(2)
			}
			if err := os.WriteFile(p.CompiledGoFiles[i], buf.Bytes(), 0644); err != nil {
				fmt.Fprintln(os.Stderr, err)
				os.Exit(2)
			}
			counts["files"]++
		}
	}
	keys := make([]string, 0, len(counts))
	for k := range counts {
		keys = append(keys, k)
	}
	sort.Strings(keys)
	for _, k := range keys {
		fmt.Printf("%s=%d ", k, counts[k])
	}
	fmt.Println()
	if *sitesOut != "" {
		b, _ := json.Marshal(sites)
		os.WriteFile(*sitesOut, b, 0644)
	}
}
