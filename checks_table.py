# Registered checks: property -> engines and budgets per tier.
# batches x runs = simulated cases of the plain binary; race_* = the same engine in the -race binary.
CHECKS = {
    "C11": dict(engines=["c11"], level="exploration",
                quick=dict(batches=16, runs=30, race_batches=8, race_runs=12, timeout=900),
                thorough=dict(batches=64, runs=500, race_batches=32, race_runs=120, timeout=3000)),
}
