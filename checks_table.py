# Registered checks: property -> engines and budgets per tier.
# batches x runs = simulated cases of the plain binary; race_* = the same engine in the -race binary.
CHECKS = {
    "C18": dict(engines=["c18", "c18thr"], level="exploration", gotree_bin=True, race_engines=["c18thr"],
                quick=dict(batches=16, runs=300, race_batches=8, race_runs=25, timeout=900),
                thorough=dict(batches=64, runs=4000, race_batches=32, race_runs=300, timeout=5400)),
    "C17": dict(engines=["c17"], level="exploration",
                quick=dict(batches=16, runs=800, timeout=900),
                thorough=dict(batches=64, runs=12000, timeout=5400)),
    "C15": dict(engines=["c15"], level="exploration",
                quick=dict(batches=16, runs=1500, timeout=900),
                thorough=dict(batches=64, runs=30000, timeout=5400)),
    "C04": dict(engines=["c04hist", "c04map", "c04lin"], level="exploration", race_engines=["c04lin"],
                quick=dict(batches=16, runs=800, race_batches=8, race_runs=60, timeout=900),
                thorough=dict(batches=64, runs=12000, race_batches=16, race_runs=600, timeout=5400)),
    "C03": dict(engines=["c03"], level="exploration",
                quick=dict(batches=16, runs=2000, timeout=900),
                thorough=dict(batches=64, runs=40000, timeout=5400)),
    "C13": dict(engines=["c13"], level="exploration",
                quick=dict(batches=16, runs=800, timeout=900),
                thorough=dict(batches=64, runs=15000, timeout=5400)),
    "C02": dict(engines=["c02"], level="fault_enumeration",
                quick=dict(batches=16, runs=1500, timeout=900),
                thorough=dict(batches=64, runs=6000, timeout=5400)),
    "C08": dict(engines=["c08"], level="exploration", race_engines=["c08"],
                quick=dict(batches=16, runs=500, race_batches=16, race_runs=150, timeout=900),
                thorough=dict(batches=64, runs=10000, race_batches=32, race_runs=1500, timeout=5400)),
    "C09": dict(engines=["c09"], level="exploration",
                quick=dict(batches=16, runs=500, timeout=900),
                thorough=dict(batches=64, runs=8000, timeout=5400)),
    "C10": dict(engines=["c10"], level="exploration", race_engines=["c10"],
                quick=dict(batches=16, runs=300, race_batches=16, race_runs=100, timeout=900),
                thorough=dict(batches=64, runs=4000, race_batches=32, race_runs=1000, timeout=5400)),
    "C11": dict(engines=["c11", "c11cli"], level="exploration", race_engines=["c11"],
                quick=dict(batches=16, runs=200, race_batches=16, race_runs=1200, timeout=900),
                thorough=dict(batches=64, runs=3000, race_batches=64, race_runs=3000, timeout=5400)),
}

NA_PURE = "pure single-threaded function of its input: no schedule, clock, stream fault, nondeterminism seam or operation history can change its truth, so a simulator has nothing to own (DESIGN.md §2, §5)"
NOT_APPLICABLE = {
    "C01": "Newick write/parse round trip: " + NA_PURE + "; the only seam on its path (reader chunking) is absorbed by bufio inside the parser",
    "C05": "re-rooting/unrooting/reordering preserve the tree: " + NA_PURE,
    "C06": "pruning yields the induced subtree: " + NA_PURE,
    "C07": "collapse/resolve: " + NA_PURE + "; Resolve's random pairing is a function of the seed, 'all random choices' is again an input quantifier",
    "C12": "parsimony optimality: a dynamic programme over (tree, tip states); " + NA_PURE,
    "C14": "distance matrices and length-threshold clusters: " + NA_PURE,
    "C16": "generators return valid trees: pure function of (size, rootedness, seed); " + NA_PURE,
    "C19": "omitted option = documented default: a static fact about flag registration fixed at link time by Go's deterministic init order; nothing varies at run time for a simulator to explore",
    "C20": "random selection is unbiased: a statement about a probability distribution over seeds; deciding it is statistical hypothesis testing, a simulator has no invariant to check",
}
PENDING = "check under construction in this round (engine designed in DESIGN.md §4, not yet registered)"
for _p in ["C02", "C03", "C04", "C08", "C09", "C10", "C13", "C15", "C17", "C18"]:
    if _p not in CHECKS:
        NOT_APPLICABLE[_p] = PENDING

PIPE_NOTE = ("The schedule / fault-position dimension is explored by the seeded scheduler; the input dimension (tree shapes, sizes up to the stated bounds) is "
             "only sampled by the workload generator. Oracle = independent Newick reader + brute-force split algebra (no gotree code). Interleavings at hook "
             "granularity; dependencies un-instrumented; go1.26.8 runtime with go1.21 GODEBUG defaults.")
HIST_NOTE = ("Quantifier 'histories': the system under simulation is the long-lived mutable tree (or index) object; every choice of the history comes from the one seed and "
             "shrinks. Histories of bounded length over trees of bounded size are sampled, not enumerated. A step that fails (error, panic, os.Exit) poisons the state and is "
             "only counted: the statement speaks of operations that report success.")
TEXTS = {
    "C18": dict(
        level_text="Seeded simulation over the product's own nondeterminism seams: every string/integer-keyed map range of gotree iterates in a seeded permutation, the wall clock is "
                   "simulated, goroutines run under the deterministic scheduler, and the process boundary is crossed with the instrumented binary. 110 templates (commands and library-call sequences) "
                   "(generators, randomised edits, sampling, pruning, renaming, format conversion, consensus, supports, comparisons, acr/asr incl. protein alignments with X) "
                   "run in-process through cmd.RootCmd with --seed fixed under seam settings A, B and A again, under 3..10 further schedules when the code started goroutines (five strategies, one of which starves a sixth of the goroutines), and as separate processes under both map seeds; every template is executed on a floor of generated inputs before the seeded search; all outputs "
                   "must be byte-identical (per-tree records of threaded commands after sorting lines, documented date lines masked). The threaded templates also run in the "
                   "-race binary (engine c18thr): a data race between workers is a result that may differ between runs. Sampling: evidence, not proof.",
        design_ref="§3.4, §4 C18",
        level_note="Map ranges inside dependencies (goalign, cobra) are not behind the seam and keep Go's native randomisation (which is itself varied by the cross-process runs). "
                   "Flags are reset to their defaults before every in-process execution. Memory addresses are varied only by process restarts. go1.26.8 runtime with go1.21 "
                   "GODEBUG defaults so that rand.Seed still seeds.",
        technique="deterministic simulation: seeded control of map-iteration order, clock, goroutine schedule and process boundary; differential comparison of outputs across seam settings"),
    "C15": dict(
        level_text="Seeded two-party histories: a copy made by Clone() or SubTree(n), then 1..20 editing steps each applied to the original or to the copy; at copy time the clone's "
                   "text (with comments) and API snapshot must equal the original's; after every step, successful or not, text and snapshot of the untouched party must be "
                   "unchanged; after every successful graft / merge / InsertIdenticalTips / RemoveSingleNodes / SubTree / Clone step the reference-model distance matrix "
                   "restricted to pre-existing tips is unchanged, exactly the requested tips were added and identical tips are at distance 0. Sampling: evidence, not proof.",
        design_ref="§4 C15", level_note=HIST_NOTE + " The distance oracle is evaluated only when every branch has a length or none has (path lengths are undefined otherwise).",
        technique="deterministic simulation: seeded two-party operation histories with an independence invariant and a reference-model distance oracle after every step"),
    "C17": dict(
        level_text="Seeded histories of root moves (re-rooting at inner nodes, outgroup, midpoint, unroot, rotations) on binary trees of 4..14 tips (one case in six presented from one of its tips: root node with a single neighbour), then the NNI enumeration with a "
                   "drawn pattern of Apply / repeated Apply / Undo / repeated Undo inside the callback; per proposal: structural checker, same tips, exactly one split out and "
                   "one in, pairwise distinct neighbours, byte-identical text after Undo and after the enumeration, two proposals per enumerated branch (each inner split "
                   "removed exactly twice), 2(n-3) proposals on unrooted trees. Sampling: evidence, not proof.",
        design_ref="§4 C17", level_note=HIST_NOTE + " For rooted trees the count is checked per branch whose two ends have three neighbours; the statement does not say whether "
                   "the branch straddling the root counts, so nothing more is demanded there.",
        technique="deterministic simulation: seeded root-move and apply/undo histories on a live tree with split-set and text invariants per step"),
    "C03": dict(
        level_text="Seeded operation histories (1..30 steps over 33 public editing operations with state-relative arguments, PRNG seam seeded per step) on one live tree; after "
                   "every successful step an own structural checker over the public traversal API (connected, acyclic, symmetric adjacency with the same branch object, "
                   "orientation away from the root, |branches| = |nodes|-1, all = internal + external, tips = degree-1 nodes) and the comparison of the written Newick (read by "
                   "an independent reader) with the walked structure. Sampling: evidence, not proof.",
        design_ref="§4 C03", level_note=HIST_NOTE,
        technique="deterministic simulation: seeded, shrinkable operation histories on a live object with invariants evaluated after every step"),
    "C04": dict(
        level_text="Three seeded simulations: (1) the C03 histories with ReinitIndexes after every successful step, each branch's tip ranking, bitset, counts and depth compared "
                   "with the split cut from a walk of the live tree; (2) pools of branches of differently rooted / rotated / SPR-related trees: SameBipartition and HashEquals "
                   "<=> same split, equal split => equal hash; a split index of drawn capacity and load factor driven through insertion / overwrite / lookup / range histories "
                   "against a plain map, keys presented through other branch objects; quartet Compare / HashEquals / HashCode over all 24 presentations; (3) simulated clients "
                   "of the RWMutex-protected hash map under the deterministic scheduler with every statement of package hashmap a pre-emption point, histories checked for "
                   "linearizability with porcupine and by the race detector. Sampling: evidence, not proof.",
        design_ref="§4 C04", level_note=HIST_NOTE + " Capacity 0 is excluded (not a capacity). porcupine time-outs are inconclusive and never reported.",
        technique="deterministic simulation: seeded operation histories against a reference map + scheduled concurrent clients checked for linearizability (porcupine)"),
    "C13": dict(
        level_text="Seeded simulation of conversion chains (1..3 hops over Nexus, Nexus+translate, Tree.Nexus, PhyloXML) written by gotree's channel-fed writers and read back "
                   "by the real multi-tree reader goroutine (under the deterministic scheduler) and by the single-tree reader from simulated chunked streams with varying "
                   "buffer sizes, zero-length reads, blank lines, CRLF and a malformed tree at any position. Oracle: reference-model view (shape, names, lengths, supports) "
                   "after each hop equals the source; ids 0,1,2,...; trees 0..j-1 then exactly one error record for a malformed tree at j; single reader = first record of "
                   "the multi reader for Newick, Nexus, PhyloXML and Nextstrain; part of the hops are repeated through `gotree reformat nexus|phyloxml|newick` run in-process. Sampling: "
                   "evidence, not proof.",
        design_ref="§4 C13",
        level_note="The fault extension 'read error in mid-stream must not silently drop trees' of DESIGN §4 is not part of this check (the statement quantifies over well-formed inputs). "
                   "Inner node names are kept unique within a tree. One tree in eight is written from one of its tips (root node with one neighbour); for such trees the hop through a "
                   "translate table is a recorded finding (known_findings.jsonl, DESIGN §12.3): the check prints KNOWN-FINDING for its two classes and reports everything else. "
                   "The input dimension is sampled. go1.26.8 runtime.",
        technique="deterministic simulation: simulated chunked streams + scheduled reader goroutine over conversion chains, oracle = reference model of the source trees"),
    "C02": dict(
        level_text="Fault enumeration on simulated byte streams: for every document of a small corpus covering the five formats, truncation after EVERY byte offset x {EOF, read error} x "
                   "chunk plans x every reader entry point is executed (complete over that finite space), the multi-tree reader goroutine running under the deterministic "
                   "scheduler; on top, seeded sampling of mutations (flips, structural insertions, deletions, duplications, splices), chunk plans with zero-length reads, "
                   "buffer sizes that force the isPrefix path, errors delivered with data, and nesting up to 10^5. Oracle: returns trees or an error within a logical step "
                   "budget; no panic, os.Exit, deadlock, post-EOF read storm; every delivered tree survives traversal, indexing, writing and cloning. Worker processes are "
                   "isolated so that a runtime fatal error is attributed to its case.",
        design_ref="§3.3, §4 C02",
        level_note="Which answer (error or trees) a reader gives is not asserted. Hang detection is logical (ticks at loop heads of io/..., reads after end of input), a wall-clock "
                   "watchdog exists only as a backstop (exit 2). The mutation space is sampled, not enumerated. go1.26.8 runtime; encoding/xml and encoding/json run un-instrumented.",
        technique="deterministic simulation: simulated stream with exhaustive truncation/crash-point enumeration + seeded mutation and chunking faults, reader goroutine under the seeded scheduler"),
    "C08": dict(
        level_text="Seeded simulation of the real Compare / CompareWeighted worker pools (fed by the real reader goroutine over a chunked simulated stream, or by a "
                   "producer that places a taxon-mismatched tree at any position) under the deterministic scheduler; every record is checked against exact set "
                   "algebra on the split maps of an independent reference model, in both directions (swap), through the pairwise CommonEdges variant and, for a quarter of the "
                   "cases, through what `gotree compare trees [-l] [--binary] [--weighted]` prints when run in-process inside the scheduler (counts, identical flag, weighted RF and KF). "
                   "Sampling: a clean run is evidence, not proof.",
        design_ref="§4 C08", level_note=PIPE_NOTE,
        technique="deterministic simulation: seeded scheduler + channel fault injection over the comparison pipeline, oracle = reference-model split algebra"),
    "C09": dict(
        level_text="Seeded simulation of reader goroutine -> Consensus under the deterministic scheduler, with chunked streams and a faulty record (foreign / missing / "
                   "extra taxon, duplicate tip, malformed, error record) at any position, collections built so that frequencies hit the threshold exactly, dyadic "
                   "thresholds and out-of-range ones; the consensus text is compared with a naive frequency table over an independent reference model, and again "
                   "after re-ordering / re-rooting / rotating the inputs; a quarter of the cases also go through `gotree compute consensus -f` run in-process. Sampling: evidence, not proof.",
        design_ref="§4 C09", level_note=PIPE_NOTE,
        technique="deterministic simulation: seeded scheduler + stream/channel fault injection over the consensus pipeline, oracle = naive frequency table"),
    "C10": dict(
        level_text="Seeded simulation of the real FBP and TBE worker pools under the deterministic scheduler with a taxon-mismatched bootstrap tree at any position; "
                   "supports read from the annotated reference tree are compared with brute-force split membership and Hamming/transfer distances on an independent "
                   "reference model, plus range, TBE>=FBP, TBE=1<=>FBP=1, no tip support, and invariance under re-ordering / re-rooting / rotation of the bootstrap "
                   "trees; a quarter of the cases also go through `gotree compute support fbp|tbe` run in-process. Sampling: evidence, not proof.",
        design_ref="§4 C10", level_note=PIPE_NOTE + " Excluded: the branch above a root child whose split is trivial (n-1|1) - the statement speaks of inner branches.",
        technique="deterministic simulation: seeded scheduler + channel fault injection over the bootstrap-support pipelines, oracle = brute-force transfer distance"),
    "C11": dict(
        level_text="Seeded search over goroutine interleavings, thread counts and fault positions of the real worker pools (Compare, CompareWeighted, FBP, TBE), driven "
                   "directly (engine c11) and through the commands `compare trees [--weighted]`, `compute support fbp|tbe` run in-process via cobra (engine c11cli), under a "
                   "deterministic scheduler with pre-emption at every channel / WaitGroup / lock / shared-variable point and at drawn statement counts inside callee code; "
                   "each case is checked against its own sequential run, against a deadlock / step-budget detector, for the error reaching the caller, and, in a second "
                   "binary, by the Go race detector kept live under the serialised schedule. Sampling: a clean run is evidence, not proof.",
        design_ref="§3.2, §4 C11",
        level_note="Interleavings are explored at hook granularity (channel, WaitGroup, lock and shared-variable statements found by type in the current AST, plus up to three "
                   "counted pre-emption points per run before arbitrary statements of packages support, tree, io/utils, io/fileutils); never inside one statement - a racy "
                   "read-modify-write in a single statement is the race detector's job. Dependencies run un-instrumented; go1.26.8 runtime with go1.21 GODEBUG defaults.",
        technique="deterministic simulation: seeded goroutine scheduler over synctest + channel fault injection + race detector, oracle = sequential run"),
}
