package sim

// Base documents of the stream-fault engines (C02, C13). Small on purpose: truncation is enumerated at
// every offset of every document below.

type baseDoc struct {
	Name   string
	Format string // newick (single), multi (newick stream), nexus, phyloxml, nextstrain
	Text   string
}

var corpus = []baseDoc{
	// ---- single Newick
	{"nw-plain", "newick", "((a:1,b:1)0.9:1,c:1,d:1);\n"},
	{"nw-rooted-names", "newick", "((A:0.1,B:0.2)in1:0.3,(C:0.4,D:0.5)in2:0.6)root;"},
	{"nw-comments", "newick", "[lead]((a[&x=1]:1[br1],b:1)0.9/0.01[n]:1[b][c],(c:1e-3,d:2.5E+1):1.5e1)[rootc];\n"},
	{"nw-nolen", "newick", "(a,(b,c),(d,(e,f)));"},
	{"nw-multifurc", "newick", "(a:0.5,b:0.25,c:0.125,(d:1,e:1,f:1,g:1)1:0.0,h:2);"},
	{"nw-quoted", "newick", "('a b':1,'it''s':2,\"q\":3,(x_1:1,y.2:1)100:1);"},
	{"nw-blank", "newick", "  \n\t( a : 1 , ( b : 2 , c : 3 ) 0.5 : 4 , d : 5 ) ; \n\n"},
	{"nw-empty-labels", "newick", "((,),(,));"},
	{"nw-single", "newick", "(a);"},
	{"nw-negative", "newick", "((a:-1,b:0)-0.5:1e400,c:NaN,d:.5);"},
	{"nw-root-length", "newick", "((a:1,b:2)0.5:3,(c:4,d:5)0.25/0.01:6)0.75:7;"},
	{"nw-inner-comment-only", "newick", "((a,b)[x],(c,d)[&&NHX:S=1])[y];"},
	{"nw-formfeed-label", "newick", "((a,b)\f,c\v:1,(d\u00a0,\u0085e)\u00a0:2);"},
	{"nw-unicode-blank-only-labels", "newick", "((a,b)\u00a0:1,(\f,\u2003)\v,c);"},
	{"nw-slash-labels", "newick", "((a,b)/:1,(c,d)x/y:1,(e,f)1/:1,(g,h)/2,(i,j)0.5/0.1/3);"},
	{"nw-sci", "newick", "(a:1E-5,b:1.5e+3,(c:0.0,d:-0.0):1e0);"},
	// ---- multi-tree Newick streams
	{"multi-3", "multi", "((a:1,b:1)0.9:1,c:1,d:1);\n((a:1,c:1):1,b:1,d:1);\n(a,b,(c,d));\n"},
	{"multi-blank-lines", "multi", "((a:1,b:1)0.9:1,c:1,d:1);\n  \n((a:1,c:1):1,\n b:1,d:1)[c;x];\n\t\n(a,b,(c,d));\n"},
	{"multi-crlf", "multi", "((a:1,b:1):1,c:1,d:1);\r\n((a:1,c:1):1,b:1,d:1);\r\n\r\n"},
	{"multi-trailing-blanks", "multi", "(a,b,(c,d)); \t \n(a,c,(b,d));\t\n   \n"},
	{"multi-one-line", "multi", "(a,b,(c,d));(a,c,(b,d));\n(a,d,(b,c))"},
	{"multi-long-line", "multi", "((aaaaaaaaaaaaaaaaaaaaaaaa:1.000000000001,bbbbbbbbbbbbbbbbbbbbbbbbbbbbb:1.00000000002)0.999999:1,cccccccccccccccccccc:1,dddddddddddddd:1);\n(a,b,(c,d));\n"},
	{"multi-bad-middle", "multi", "(a,b,(c,d));\n(a,c,(b,d);\n(a,d,(b,c));\n"},
	{"multi-leading-blank", "multi", "\n\n \n(a,b,(c,d));\n"},
	{"multi-tab-after-semicolon", "multi", "(a,b,(c,d));\t\n(a,c,(b,d)); \t \n(a,d,(b,c));\t"},
	{"multi-semicolon-in-comment", "multi", "(a[x;y],b,(c,d));\n(a,c,(b,d)[;]);\n"},
	{"multi-14-bad-12th", "multi", "(a,b,(c,d));\n(a,c,(b,d));\n(a,d,(b,c));\n(a,b,(c,d));\n(a,c,(b,d));\n(a,d,(b,c));\n(a,b,(c,d));\n(a,c,(b,d));\n(a,d,(b,c));\n(a,b,(c,d));\n(a,c,(b,d));\n(a,d,(b,c);\n(a,b,(c,d));\n(a,c,(b,d));\n"},
	// ---- Nexus
	{"nx-full", "nexus", `#NEXUS
[ a comment ]
BEGIN TAXA;
 DIMENSIONS NTAX=4;
 TAXLABELS a b c d;
END;
BEGIN DATA;
 DIMENSIONS NTAX=4 NCHAR=4;
 FORMAT DATATYPE=dna MISSING=* GAP=-;
 MATRIX
 a ACGT
 b ACGA
 c AC-T
 d A*GT
 ;
END;
BEGIN TREES;
  TRANSLATE
   0 a,
   1 b,
   2 c,
   3 d
  ;
  TREE t1 = [&U] ((0:1,1:1)0.9:1,2:1,3:1);
  TREE t2 = ((0:1,2:1):1,1:1,3:1);
END;
`},
	{"nx-trees-only", "nexus", "#NEXUS\nBEGIN TREES;\nTREE one = ((a:1,b:1):1,c:1,d:1);\nTREE two = (a,b,(c,d));\nEND;\n"},
	{"nx-taxa-trees", "nexus", "#NEXUS\nBEGIN TAXA;\nDIMENSIONS NTAX=3;\nTAXLABELS x y z;\nEND;\nBEGIN TREES;\nTREE t = [&R] ((x:1,y:1):1,z:2);\nEND;\n"},
	{"nx-unknown-block", "nexus", "#NEXUS\nBEGIN PAUP;\n set autoclose=yes [c] warnreset=no;\n log file=x;\nEND;\nBEGIN TREES;\n[c1]\nTREE t = (a,b,(c,d));\n[c2]\nEND;\n"},
	{"nx-protein", "nexus", "#NEXUS\nBEGIN DATA;\nDIMENSIONS NTAX=2 NCHAR=3;\nFORMAT DATATYPE=protein MISSING=? GAP=-;\nMATRIX\ns1 MK?\ns2 M-L\n;\nEND;\n"},
	{"nx-crlf", "nexus", "#NEXUS\r\nBEGIN TREES;\r\nTREE t = (a,b,(c,d));\r\nEND;\r\n"},
	{"nx-cr-only-16-trees", "nexus", "#NEXUS\rBEGIN TREES;\rTREE t0 = (a,b,(c,d));\rTREE t1 = (a,b,(c,d));\rTREE t2 = (a,b,(c,d));\rTREE t3 = (a,b,(c,d));\rTREE t4 = (a,b,(c,d));\rTREE t5 = (a,b,(c,d));\rTREE t6 = (a,b,(c,d));\rTREE t7 = (a,b,(c,d));\rTREE t8 = (a,b,(c,d));\rTREE t9 = (a,b,(c,d));\rTREE t10 = (a,b,(c,d));\rTREE t11 = (a,b,(c,d));\rTREE t12 = (a,b,(c,d));\rTREE t13 = (a,b,(c,d));\rTREE t14 = (a,b,(c,d));\rTREE t15 = (a,b,(c,d));\rEND;\r"},
	{"nx-14-identical-warnings", "nexus", "#NEXUS\nBEGIN PAUP;\nset x=0;\nEND;\nBEGIN PAUP;\nset x=0;\nEND;\nBEGIN PAUP;\nset x=0;\nEND;\nBEGIN PAUP;\nset x=0;\nEND;\nBEGIN PAUP;\nset x=0;\nEND;\nBEGIN PAUP;\nset x=0;\nEND;\nBEGIN PAUP;\nset x=0;\nEND;\nBEGIN PAUP;\nset x=0;\nEND;\nBEGIN PAUP;\nset x=0;\nEND;\nBEGIN PAUP;\nset x=0;\nEND;\nBEGIN PAUP;\nset x=0;\nEND;\nBEGIN PAUP;\nset x=0;\nEND;\nBEGIN PAUP;\nset x=0;\nEND;\nBEGIN PAUP;\nset x=0;\nEND;\nBEGIN TREES;\nFOO bar;\nFOO bar;\nFOO bar;\nFOO bar;\nFOO bar;\nFOO bar;\nFOO bar;\nFOO bar;\nFOO bar;\nFOO bar;\nFOO bar;\nFOO bar;\nFOO bar;\nFOO bar;\nTREE t = (a,b,(c,d));\nEND;\n"},
	{"nx-lowercase", "nexus", "#nexus\nbegin taxa;\ndimensions ntax=4;\ntaxlabels a b c d;\nend;\nbegin trees;\ntranslate 1 a, 2 b, 3 c, 4 d;\ntree t = (1,2,(3,4));\nend;\n"},
	{"nx-interleaved-comments", "nexus", "#NEXUS\nBEGIN TAXA; [x] DIMENSIONS [y] NTAX=2; TAXLABELS [z] a b; END;\nBEGIN TREES; TREE [w] t = (a,b); END;\n"},
	{"nx-sets", "nexus", "#NEXUS\nBEGIN SETS;\nCHARSET first = 1-10;\nEND;\nBEGIN ASSUMPTIONS;\nOPTIONS DEFTYPE=unord;\nEND;\nBEGIN TREES;\nTREE t=(a,b,c);\nEND;\n"},
	{"nx-empty-trees", "nexus", "#NEXUS\nBEGIN TREES;\nEND;\n"},
	{"nx-weights-rooting", "nexus", "#NEXUS\nBEGIN TREES;\nTREE * best = [&R] [&W 1/3] ((a:1,b:1):1,c:2);\nUTREE u = [&U] (a,b,c);\nEND;\n"},
	{"nx-translate-numeric-tips", "nexus", "#NEXUS\nBEGIN TAXA;\nDIMENSIONS NTAX=3;\nTAXLABELS 1 2 3;\nEND;\nBEGIN TREES;\nTRANSLATE 0 1, 1 2, 2 3;\nTREE t = (0,1,2);\nEND;\n"},
	{"nx-data-interleave", "nexus", "#NEXUS\nBEGIN DATA;\nDIMENSIONS NTAX=2 NCHAR=4;\nFORMAT DATATYPE=DNA INTERLEAVE=yes MISSING=N GAP=-;\nMATRIX\ns1 AC\ns2 A-\n\ns1 GT\ns2 NT\n;\nEND;\nBEGIN TREES;\nTREE t=(s1,s2);\nEND;\n"},
	// ---- PhyloXML
	{"px-two", "phyloxml", `<?xml version="1.0" encoding="UTF-8"?>
<phyloxml xmlns="http://www.phyloxml.org">
<phylogeny rooted="false">
<clade>
 <clade><branch_length>1</branch_length><confidence type="unknown">0.9</confidence>
  <clade><name>a</name><branch_length>1</branch_length></clade>
  <clade><name>b</name><branch_length>1</branch_length></clade>
 </clade>
 <clade><name>c</name><branch_length>1</branch_length></clade>
 <clade><name>d</name><branch_length>1</branch_length></clade>
</clade>
</phylogeny>
<phylogeny rooted="true">
<clade><clade><name>x</name></clade><clade><name>y</name></clade></clade>
</phylogeny>
</phyloxml>
`},
	{"px-taxonomy", "phyloxml", `<phyloxml><phylogeny rooted="true"><clade><clade><taxonomy><id provider="ncbi">9606</id><scientific_name>Homo sapiens</scientific_name><code>HUMAN</code></taxonomy></clade><clade><taxonomy><code>MOUSE</code></taxonomy><branch_length>0.5</branch_length></clade></clade></phylogeny></phyloxml>`},
	{"px-phylogeny-without-clade-first", "phyloxml", `<phyloxml><phylogeny rooted="true"><name>only a name</name><description>no clade</description></phylogeny><phylogeny rooted="true"><clade><clade><name>a</name></clade><clade><name>b</name></clade></clade></phylogeny></phyloxml>`},
	{"px-phylogeny-without-clade-only", "phyloxml", `<phyloxml><phylogeny rooted="false"><name>n</name></phylogeny></phyloxml>`},
	{"px-unrooted-two-children", "phyloxml", `<phyloxml><phylogeny rooted="false"><clade><clade><branch_length>1</branch_length><clade><name>a</name><branch_length>1</branch_length></clade><clade><name>b</name><branch_length>2</branch_length></clade></clade><clade><branch_length>3</branch_length><clade><name>c</name><branch_length>1</branch_length></clade><clade><name>d</name><branch_length>1</branch_length></clade></clade></clade></phylogeny></phyloxml>`},
	{"px-branch-length-attribute", "phyloxml", `<phyloxml><phylogeny rooted="true"><clade branch_length="0.5"><clade branch_length="1.5"><name>a</name></clade><clade branch_length=""><name>b</name></clade><clade branch_length="2"><branch_length>3</branch_length><name>c</name></clade><clade branch_length="x"><name>d</name></clade></clade></phylogeny></phyloxml>`},
	{"px-odd-attributes", "phyloxml", `<phyloxml><phylogeny rooted="true" branch_length_unit="1" rerootable="no"><clade id_source="r" collapse="true"><clade branch_length="1e-3" id_source="x"><name>a</name><width>2</width><color><red>1</red><green>2</green><blue>3</blue></color></clade><clade><name>b</name><confidence type="p">0.1</confidence><confidence type="bootstrap">90</confidence><events><duplications>1</duplications></events></clade></clade></phylogeny></phyloxml>`},
	{"px-empty", "phyloxml", `<phyloxml></phyloxml>`},
	{"px-noname-tip", "phyloxml", `<phyloxml><phylogeny rooted="true"><clade><clade></clade><clade><name>b</name></clade></clade></phylogeny></phyloxml>`},
	{"px-root-length-confidence", "phyloxml", `<phyloxml><phylogeny rooted="true"><clade><name>root</name><branch_length>0.5</branch_length><confidence type="bootstrap">0.9</confidence><clade><name>a</name><branch_length>1</branch_length><confidence type="x">0.1</confidence></clade><clade><branch_length>2</branch_length><confidence type="bootstrap">0.7</confidence><clade><name>b</name></clade><clade><name>c</name></clade></clade></clade></phylogeny></phyloxml>`},
	{"px-attrs-and-extras", "phyloxml", `<?xml version="1.0"?><phyloxml><phylogeny rooted="maybe" rerootable="true"><name>x</name><description>d</description><clade branch_length="0.3"><clade><name>a</name><events><speciations>1</speciations></events></clade><clade><name>b</name><property ref="p" datatype="xsd:string" applies_to="clade">v</property></clade></clade></phylogeny><phylogeny rooted="false"></phylogeny></phyloxml>`},
	{"px-empty-elements", "phyloxml", `<phyloxml><phylogeny rooted="true"><clade><clade/><clade><name/><branch_length/></clade><clade><name>a</name><confidence/></clade></clade></phylogeny><phylogeny/></phyloxml>`},
	{"px-cdata-entities", "phyloxml", `<?xml version="1.0"?><!DOCTYPE phyloxml><phyloxml><!-- c --><phylogeny rooted="false"><clade><clade><name><![CDATA[a<b]]></name></clade><clade><name>x&amp;y&#65;</name><branch_length> 1e-2 </branch_length></clade><clade><name>c</name><branch_length>-1</branch_length><confidence type="b">NaN</confidence></clade></clade></phylogeny></phyloxml>`},
	{"nx-huge-dimensions", "nexus", "#NEXUS\nBEGIN TAXA;\nDIMENSIONS NTAX=3;\nTAXLABELS a b c;\nEND;\nBEGIN DATA;\nDIMENSIONS NTAX=3 NCHAR=2;\nFORMAT DATATYPE=DNA;\nMATRIX\na AC\nb AG\nc AT\n;\nEND;\nBEGIN TREES;\nTREE t=(a,b,c);\nEND;\n"},
	{"px-latin1", "phyloxml", `<?xml version="1.0" encoding="ISO-8859-1"?><phyloxml><phylogeny rooted="true"><clade><clade><name>a</name></clade><clade><name>b</name></clade></clade></phylogeny></phyloxml>`},
	{"px-utf16-declared", "phyloxml", `<?xml version="1.0" encoding="UTF-16"?><phyloxml><phylogeny rooted="true"><clade><clade><name>a</name></clade><clade><name>b</name></clade></clade></phylogeny></phyloxml>`},
	{"px-windows1252-standalone", "phyloxml", `<?xml version="1.1" encoding="windows-1252" standalone="yes"?><phyloxml><phylogeny rooted="true"><clade><clade><name>a</name></clade><clade><name>b</name></clade></clade></phylogeny></phyloxml>`},
	// ---- Nextstrain
	{"ns-small", "nextstrain", `{"version":"v2","meta":{"title":"t"},"tree":{"name":"NODE_0","node_attrs":{"div":0},"children":[{"name":"a","node_attrs":{"div":1.5,"num_date":{"value":2020.1,"confidence":[2020.0,2020.2]},"country":{"value":"FR"},"accession":"AB:1, 2"},"branch_attrs":{"labels":{"aa":"S: A1B, C2D"},"mutations":{"nuc":["A1T"]}}},{"name":"NODE_1","node_attrs":{"div":1},"children":[{"name":"b","node_attrs":{"div":2}},{"name":"c","node_attrs":{"div":2.5}}]}]}}`},
	{"ns-v1", "nextstrain", `{"version":"v1","tree":{"name":"r","children":[]}}`},
	{"ns-leaf-root", "nextstrain", `{"version":"v2","tree":{"name":"only"}}`},
	{"ns-notree", "nextstrain", `{"version":"v2"}`},
	{"ns-nulls", "nextstrain", `{"version":"v2","tree":{"name":"r","node_attrs":null,"branch_attrs":null,"children":[{"name":"a","children":null},null,{"name":null,"children":[null]}]}}`},
	{"ns-date-confidence-shapes", "nextstrain", `{"version":"v2","tree":{"name":"r","node_attrs":{"div":0,"num_date":{"value":2019.5,"confidence":[2019.4]}},"children":[{"name":"a","node_attrs":{"div":1,"num_date":{"value":2020.5,"confidence":[]}}},{"name":"b","node_attrs":{"div":2,"num_date":{"value":2020.25,"confidence":[2020.1,2020.3,2020.4]}}},{"name":"c","node_attrs":{"div":1,"num_date":{"value":2021,"confidence":null}}},{"name":"d","node_attrs":{"div":1,"num_date":{"confidence":[2020.1]}}}]}}`},
	{"ns-one-element-arrays", "nextstrain", `{"version":"v2","tree":{"name":"r","node_attrs":{"div":0},"branch_attrs":{"mutations":{"nuc":[],"S":["D614G"]},"labels":{"aa":"","clade":"19A"}},"children":[{"name":"a","node_attrs":{"div":1,"country":{"value":"x","confidence":{"x":1}},"num_date":{"value":2020.5,"confidence":[2020.4]}},"branch_attrs":{"mutations":{}}}]}}`},
	{"ns-tree-null", "nextstrain", `{"version":"v2","tree":null}`},
	{"ns-wrong-types", "nextstrain", `{"version":"v2","tree":{"name":"r","children":[{"name":"a","node_attrs":{"div":"x"}},{"name":"b","node_attrs":{"div":1e999}}]}}`},
	{"ns-deeper", "nextstrain", `{"version":"v2","tree":{"name":"r","node_attrs":{"div":0.5,"num_date":{"value":2019.5}},"branch_attrs":{"labels":{"aa":"x"}},"children":[{"name":"i","node_attrs":{"div":1},"children":[{"name":"i2","children":[{"name":"a","node_attrs":{"div":3,"region":{"value":"eu","entropy":0.1,"confidence":{"eu":0.9}}}},{"name":"b"}]},{"name":"c","node_attrs":{"div":0.25},"children":[]}]},{"name":"d","node_attrs":{"div":null}}]}}`},
}

func corpusFor(format string) []baseDoc {
	var out []baseDoc
	for _, d := range corpus {
		if d.Format == format {
			out = append(out, d)
		}
	}
	return out
}
