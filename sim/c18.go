package sim

// C18 — results are a deterministic function of input, options and seed. Engine detsim: the same command
// (in-process through cmd.RootCmd, and as a separate OS process of the instrumented binary) is executed
// under different settings of the seams map-iteration order / goroutine schedule / clock / process
// boundary, with --seed held fixed; outputs must be byte-identical.

import (
	"bufio"
	"fmt"
	"math/rand"
	"os"
	"os/exec"
	"path/filepath"
	"regexp"
	"sort"
	"strconv"
	"strings"
	"testing"

	"github.com/evolbioinfo/gotree/acr"
	"github.com/evolbioinfo/gotree/cmd"
	"github.com/evolbioinfo/gotree/io/nexus"
	"github.com/evolbioinfo/gotree/io/utils"
	"github.com/evolbioinfo/gotree/tree"
	"github.com/spf13/cobra"
	"github.com/spf13/pflag"
	"pgregory.net/rapid"
	"sim/sched"
)

type Seam struct {
	MapSeed uint64    `json:"mapseed"`
	Epoch   int64     `json:"epoch"`
	Sched   SchedCase `json:"sched"`
}

type DetCase struct {
	Template string            `json:"template"`
	Files    map[string]string `json:"files"` // input files (name -> content)
	Seed     int               `json:"seed"`  // --seed
	Threads  int               `json:"threads"`
	SeamA    Seam              `json:"seam_a"`
	SeamB    Seam              `json:"seam_b"`
	Proc     bool              `json:"proc"` // also run as a separate OS process
	// Sweep > 0: when the first run started goroutines, the command is executed under Sweep further schedules derived from schedule A
	// (map order and clock as in A), each compared with the first run
	Sweep int `json:"sweep,omitempty"`
	// Interfere names another template that is executed in the same process between two executions of Template: state
	// leaking from one command (or one library call) into the next shows as a difference between those two
	Interfere string `json:"interfere,omitempty"`
}

type detTemplate struct {
	name     string
	args     []string // placeholders: @name for input files, @OUT @X1 @X2 for output files, @SEED, @T (threads)
	stdout   bool     // the result is printed on stdout
	perTree  bool     // threaded per-tree records: compared after sorting the lines
	threaded bool     // takes -t
	noSeed   bool
	// lib != nil: not a command but a sequence of library calls ("the library counterparts"), executed under the same seams after rand.Seed(seed)
	lib func(files map[string]string, c *DetCase) (string, error)
}

func firstTree(files map[string]string, name string) *tree.Tree {
	return mustParse(strings.TrimSpace(strings.Split(files[name], "\n")[0]))
}

var libTemplates = []detTemplate{
	{name: "lib-removetips-indexed", lib: func(f map[string]string, c *DetCase) (string, error) {
		// a binary tree, indexed, from which about half of the tips are removed in one call (removals that collapse nodes next to each other)
		t := firstTree(f, "bin.nw")
		if err := t.ReinitIndexes(); err != nil {
			return "", err
		}
		names := sortedTipNames(t)
		var rm []string
		for i, n := range names {
			if (i+c.Seed)%2 == 0 && len(names)-len(rm) > 3 {
				rm = append(rm, n)
			}
		}
		err := t.RemoveTips(false, rm...)
		return t.Newick(), err
	}},
	{name: "lib-avg-distance-matrix", lib: func(f map[string]string, c *DetCase) (string, error) {
		// the averaged matrix with every bit of its values (the command prints 12 decimals only)
		in := utils.ReadMultiTrees(bufio.NewReader(strings.NewReader(f["trees.nw"])), utils.FORMAT_NEWICK)
		mat, tips, err := tree.AvgDistanceMatrix(c.Seed%3, in)
		if err != nil {
			return "", err
		}
		var b strings.Builder
		for i, row := range mat {
			b.WriteString(tips[i].Name())
			for _, v := range row {
				b.WriteString(" " + strconv.FormatFloat(v, 'g', -1, 64))
			}
			b.WriteString("\n")
		}
		return b.String(), nil
	}},
	{name: "lib-removetips-clone-revert", lib: func(f map[string]string, c *DetCase) (string, error) {
		t := firstTree(f, "one.nw").Clone()
		names := sortedTipNames(t)
		err := t.RemoveTips(true, names[:len(names)-2]...)
		return t.Newick(), err
	}},
	{name: "lib-rename-chain", lib: func(f map[string]string, c *DetCase) (string, error) {
		t := firstTree(f, "one.nw")
		names := sortedTipNames(t)
		m := map[string]string{}
		for i := 0; i+1 < len(names) && i < 5; i++ {
			m[names[i]] = names[i+1]
		}
		m[names[min(5, len(names)-1)]] = "zz"
		err := t.Rename(m)
		return t.Newick(), err
	}},
	{name: "lib-random-edits", lib: func(f map[string]string, c *DetCase) (string, error) {
		t := firstTree(f, "one.nw")
		t.ShuffleTips()
		t.Resolve()
		t.RotateInternalNodes()
		return t.Newick(), nil
	}},
	{name: "lib-generators", lib: func(f map[string]string, c *DetCase) (string, error) {
		a, err := tree.RandomYuleBinaryTree(9, true)
		if err != nil {
			return "", err
		}
		b, err := tree.RandomUniformBinaryTree(9, false)
		if err != nil {
			return "", err
		}
		return a.Newick() + "\n" + b.Newick(), nil
	}},
	{name: "lib-nexus-translate", lib: func(f map[string]string, c *DetCase) (string, error) {
		var texts []string
		for _, ln := range strings.Split(strings.TrimSpace(f["numeric.nw"]), "\n") {
			texts = append(texts, ln)
		}
		return nexus.WriteNexus(treeChan(texts), true)
	}},
	{name: "lib-acr", lib: func(f map[string]string, c *DetCase) (string, error) {
		t := firstTree(f, "rooted.nw")
		states := map[string]string{}
		for _, ln := range strings.Split(strings.TrimSpace(f["numstates.txt"]), "\n") {
			if kv := strings.Split(ln, "\t"); len(kv) == 2 {
				states[kv[0]] = kv[1]
			}
		}
		m, steps, err := acr.ParsimonyAcr(t, states, acr.ALGO_DOWNPASS, true)
		var b strings.Builder
		for _, k := range sortedKeys(m) {
			b.WriteString(k + "=" + m[k] + ";")
		}
		return fmt.Sprintf("%s steps=%d %s", t.Newick(), steps, b.String()), err
	}},
}

func init() { detTemplates = append(detTemplates, libTemplates...) }

var detTemplates = []detTemplate{
	{name: "shuffletips", args: []string{"shuffletips", "-i", "@one.nw", "--seed", "@SEED", "-o", "@OUT"}},
	{name: "sample", args: []string{"sample", "-i", "@trees.nw", "-n", "2", "--seed", "@SEED", "-o", "@OUT"}},
	{name: "sample-replace", args: []string{"sample", "-i", "@trees.nw", "-n", "5", "--replace", "--seed", "@SEED", "-o", "@OUT"}},
	{name: "prune-random", args: []string{"prune", "-i", "@one.nw", "--random", "2", "--seed", "@SEED", "-o", "@OUT"}},
	{name: "prune-random-revert", args: []string{"prune", "-i", "@one.nw", "--random", "4", "-r", "--seed", "@SEED", "-o", "@OUT"}},
	{name: "resolve", args: []string{"resolve", "-i", "@one.nw", "--seed", "@SEED", "-o", "@OUT"}},
	{name: "rename-chain", args: []string{"rename", "-i", "@one.nw", "-m", "@chain.txt", "--seed", "@SEED", "-o", "@OUT"}},
	{name: "rename-chain-internal", args: []string{"rename", "-i", "@named.nw", "-m", "@chain.txt", "--internal", "--seed", "@SEED", "-o", "@OUT"}},
	{name: "reformat-nexus-translate-numeric", args: []string{"reformat", "nexus", "-i", "@numeric.nw", "--translate", "--seed", "@SEED", "-o", "@OUT"}},
	{name: "reformat-newick-from-numeric-nexus", args: []string{"reformat", "newick", "-i", "@numeric.nx", "-f", "nexus", "--seed", "@SEED", "-o", "@OUT"}},
	{name: "compare-trees-bad", args: []string{"compare", "trees", "-i", "@ref.nw", "-c", "@trees_bad.nw", "-t", "@T", "--seed", "@SEED"}, stdout: true, perTree: true, threaded: true},
	{name: "compare-trees-bad-weighted", args: []string{"compare", "trees", "-i", "@ref.nw", "-c", "@trees_bad.nw", "-t", "@T", "--weighted", "--seed", "@SEED"}, stdout: true, perTree: true, threaded: true},
	{name: "fbp-bad", args: []string{"compute", "support", "fbp", "-i", "@ref.nw", "-b", "@trees_bad.nw", "-t", "@T", "-l", "@X1", "--silent", "--seed", "@SEED", "-o", "@OUT"}, threaded: true},
	{name: "tbe-bad", args: []string{"compute", "support", "tbe", "-i", "@ref.nw", "-b", "@trees_bad.nw", "-t", "@T", "-l", "@X1", "--silent", "--seed", "@SEED", "-o", "@OUT"}, threaded: true},
	{name: "brlen-setrand-external-only", args: []string{"brlen", "setrand", "-i", "@one.nw", "--internal=false", "--seed", "@SEED", "-o", "@OUT"}},
	{name: "brlen-setrand-internal-only", args: []string{"brlen", "setrand", "-i", "@one.nw", "--external=false", "-m", "0.5", "--seed", "@SEED", "-o", "@OUT"}},
	{name: "brlen-setrand-nexus", args: []string{"brlen", "setrand", "-i", "@trees.nx", "--format", "nexus", "--seed", "@SEED", "-o", "@OUT"}},
	{name: "resolve-nexus", args: []string{"resolve", "-i", "@trees.nx", "--format", "nexus", "--seed", "@SEED", "-o", "@OUT"}},
	{name: "acr-numeric-states", args: []string{"acr", "-i", "@rooted.nw", "--states", "@numstates.txt", "--algo", "acctran", "--out-steps", "@X1", "--out-states", "@X2", "--seed", "@SEED", "-o", "@OUT"}},
	{name: "acr-numeric-states-random", args: []string{"acr", "-i", "@rooted.nw", "--states", "@numstates.txt", "--algo", "downpass", "--random-resolve", "--out-steps", "@X1", "--out-states", "@X2", "--seed", "@SEED", "-o", "@OUT"}},
	{name: "sample-many", args: []string{"sample", "-i", "@trees.nw", "-n", "3", "--seed", "@SEED", "-o", "@OUT"}},
	{name: "compare-trees-long-bad", args: []string{"compare", "trees", "-i", "@ref.nw", "-c", "@trees_long_bad.nw", "-t", "@T", "--seed", "@SEED"}, stdout: true, perTree: true, threaded: true},
	{name: "fbp-long-bad", args: []string{"compute", "support", "fbp", "-i", "@ref.nw", "-b", "@trees_long_bad.nw", "-t", "@T", "-l", "@X1", "--silent", "--seed", "@SEED", "-o", "@OUT"}, threaded: true},
	{name: "consensus-long-bad", args: []string{"compute", "consensus", "-i", "@trees_long_bad.nw", "-f", "0.5", "--seed", "@SEED", "-o", "@OUT"}},
	{name: "compare-trees-nexus", args: []string{"compare", "trees", "-i", "@ref.nx", "-c", "@trees.nx", "--format", "nexus", "-t", "@T", "--seed", "@SEED"}, stdout: true, perTree: true, threaded: true},
	{name: "prune-tipfile-indexed", args: []string{"prune", "-i", "@trees.nw", "-c", "@small.nw", "--seed", "@SEED", "-o", "@OUT"}},
	{name: "rename-auto", args: []string{"rename", "-i", "@trees.nw", "--auto", "--internal", "--tips", "-l", "6", "--seed", "@SEED", "-o", "@OUT"}},
	{name: "reformat-nexus-translate", args: []string{"reformat", "nexus", "-i", "@trees.nw", "--translate", "--seed", "@SEED", "-o", "@OUT"}},
	{name: "edgetrees", args: []string{"compute", "edgetrees", "-i", "@one.nw", "-t", "@T", "--seed", "@SEED", "-o", "@OUTPREFIX"}, threaded: true},
	{name: "fbp", args: []string{"compute", "support", "fbp", "-i", "@ref.nw", "-b", "@trees.nw", "-t", "@T", "-l", "@X1", "--silent", "--seed", "@SEED", "-o", "@OUT"}, threaded: true},
	{name: "tbe", args: []string{"compute", "support", "tbe", "-i", "@ref.nw", "-b", "@trees.nw", "-t", "@T", "-l", "@X1", "--silent", "--seed", "@SEED", "-o", "@OUT"}, threaded: true},
	{name: "tbe-moved-taxa", args: []string{"compute", "support", "tbe", "-i", "@ref.nw", "-b", "@trees.nw", "-t", "@T", "-l", "@X1", "-r", "@X2", "--moved-taxa", "--per-branches", "--silent", "--seed", "@SEED", "-o", "@OUT"}, threaded: true},
	{name: "compare-trees", args: []string{"compare", "trees", "-i", "@ref.nw", "-c", "@trees.nw", "-t", "@T", "--seed", "@SEED"}, stdout: true, perTree: true, threaded: true},
	{name: "compare-trees-tips-rf", args: []string{"compare", "trees", "-i", "@ref.nw", "-c", "@trees.nw", "-t", "@T", "-l", "--rf", "--seed", "@SEED"}, stdout: true, perTree: true, threaded: true},
	{name: "compare-trees-binary", args: []string{"compare", "trees", "-i", "@ref.nw", "-c", "@trees.nw", "-t", "@T", "--binary", "--seed", "@SEED"}, stdout: true, perTree: true, threaded: true},
	{name: "compare-trees-weighted", args: []string{"compare", "trees", "-i", "@ref.nw", "-c", "@trees.nw", "-t", "@T", "--weighted", "--seed", "@SEED"}, stdout: true, perTree: true, threaded: true},
	{name: "acr-acctran", args: []string{"acr", "-i", "@rooted.nw", "--states", "@states.txt", "--algo", "acctran", "--out-steps", "@X1", "--out-states", "@X2", "--seed", "@SEED", "-o", "@OUT"}},
	{name: "acr-deltran", args: []string{"acr", "-i", "@rooted.nw", "--states", "@states.txt", "--algo", "deltran", "--out-steps", "@X1", "--out-states", "@X2", "--seed", "@SEED", "-o", "@OUT"}},
	{name: "acr-downpass-random", args: []string{"acr", "-i", "@rooted.nw", "--states", "@states.txt", "--algo", "downpass", "--random-resolve", "--out-steps", "@X1", "--out-states", "@X2", "--seed", "@SEED", "-o", "@OUT"}},
	{name: "asr-protein-downpass", args: []string{"asr", "-i", "@rooted.nw", "-a", "@prot.fa", "--algo", "downpass", "--log", "@X1", "--seed", "@SEED", "-o", "@OUT"}},
	{name: "asr-protein-acctran", args: []string{"asr", "-i", "@rooted.nw", "-a", "@prot.fa", "--algo", "acctran", "--log", "@X1", "--seed", "@SEED", "-o", "@OUT"}},
	{name: "asr-protein-deltran-random", args: []string{"asr", "-i", "@rooted.nw", "-a", "@prot.fa", "--algo", "deltran", "--random-resolve", "--log", "@X1", "--seed", "@SEED", "-o", "@OUT"}},
	{name: "asr-nt-deltran", args: []string{"asr", "-i", "@rooted.nw", "-a", "@nt.fa", "--algo", "deltran", "--log", "@X1", "--seed", "@SEED", "-o", "@OUT"}},
	{name: "asr-nt-acctran-random", args: []string{"asr", "-i", "@rooted.nw", "-a", "@nt.fa", "--algo", "acctran", "--random-resolve", "--log", "@X1", "--seed", "@SEED", "-o", "@OUT"}},
	{name: "generate-yule", args: []string{"generate", "yuletree", "-l", "9", "-n", "3", "--seed", "@SEED", "-o", "@OUT"}},
	{name: "generate-yule-rooted", args: []string{"generate", "yuletree", "-l", "9", "-r", "--seed", "@SEED", "-o", "@OUT"}},
	{name: "generate-uniform", args: []string{"generate", "uniformtree", "-l", "9", "-n", "2", "--seed", "@SEED", "-o", "@OUT"}},
	{name: "generate-uniform-rooted", args: []string{"generate", "uniformtree", "-l", "9", "-r", "--seed", "@SEED", "-o", "@OUT"}},
	{name: "generate-balanced", args: []string{"generate", "balancedtree", "-d", "3", "--seed", "@SEED", "-o", "@OUT"}},
	{name: "generate-caterpillar", args: []string{"generate", "caterpillartree", "-l", "8", "--seed", "@SEED", "-o", "@OUT"}},
	{name: "generate-star", args: []string{"generate", "startree", "-l", "8", "--seed", "@SEED", "-o", "@OUT"}},
	{name: "generate-topologies", args: []string{"generate", "topologies", "-l", "5", "--seed", "@SEED", "-o", "@OUT"}},
	{name: "prune-tipfile", args: []string{"prune", "-i", "@trees.nw", "-f", "@tips.txt", "--seed", "@SEED", "-o", "@OUT"}},
	{name: "prune-comp", args: []string{"prune", "-i", "@one.nw", "-c", "@small.nw", "--seed", "@SEED", "-o", "@OUT"}},
	{name: "rotate-rand", args: []string{"rotate", "rand", "-i", "@one.nw", "--seed", "@SEED", "-o", "@OUT"}},
	{name: "rotate-sort", args: []string{"rotate", "sort", "-i", "@one.nw", "--seed", "@SEED", "-o", "@OUT"}},
	{name: "brlen-setrand", args: []string{"brlen", "setrand", "-i", "@one.nw", "--seed", "@SEED", "-o", "@OUT"}},
	{name: "brlen-scale", args: []string{"brlen", "scale", "-i", "@one.nw", "-f", "2.5", "--seed", "@SEED", "-o", "@OUT"}},
	{name: "brlen-round", args: []string{"brlen", "round", "-i", "@one.nw", "-p", "1", "--seed", "@SEED", "-o", "@OUT"}},
	{name: "brlen-clear", args: []string{"brlen", "clear", "-i", "@one.nw", "--seed", "@SEED", "-o", "@OUT"}},
	{name: "support-setrand", args: []string{"support", "setrand", "-i", "@one.nw", "--seed", "@SEED", "-o", "@OUT"}},
	{name: "support-clear", args: []string{"support", "clear", "-i", "@one.nw", "--seed", "@SEED", "-o", "@OUT"}},
	{name: "collapse-length", args: []string{"collapse", "length", "-i", "@one.nw", "-l", "0.6", "--seed", "@SEED", "-o", "@OUT"}},
	{name: "collapse-support", args: []string{"collapse", "support", "-i", "@one.nw", "-s", "0.5", "--seed", "@SEED", "-o", "@OUT"}},
	{name: "collapse-depth", args: []string{"collapse", "depth", "-i", "@one.nw", "-m", "2", "-M", "3", "--seed", "@SEED", "-o", "@OUT"}},
	{name: "nni", args: []string{"nni", "-i", "@bin.nw", "--seed", "@SEED", "-o", "@OUT"}},
	{name: "reroot-midpoint", args: []string{"reroot", "midpoint", "-i", "@one.nw", "--seed", "@SEED", "-o", "@OUT"}},
	{name: "reroot-outgroup", args: []string{"reroot", "outgroup", "-i", "@one.nw", "-l", "@tips.txt", "--seed", "@SEED", "-o", "@OUT"}},
	{name: "unroot", args: []string{"unroot", "-i", "@rooted.nw", "--seed", "@SEED", "-o", "@OUT"}},
	{name: "rename-map", args: []string{"rename", "-i", "@one.nw", "-m", "@map.txt", "--seed", "@SEED", "-o", "@OUT"}},
	{name: "rename-regexp", args: []string{"rename", "-i", "@one.nw", "-e", "t(.)", "-b", "tip$1", "--seed", "@SEED", "-o", "@OUT"}},
	{name: "repopulate", args: []string{"repopulate", "-i", "@one.nw", "-g", "@groups.txt", "--seed", "@SEED", "-o", "@OUT"}},
	{name: "merge", args: []string{"merge", "-i", "@rooted.nw", "-c", "@other.nw", "--seed", "@SEED", "-o", "@OUT"}},
	{name: "graft", args: []string{"graft", "-i", "@one.nw", "-c", "@other.nw", "-l", "t1", "--seed", "@SEED", "-o", "@OUT"}},
	{name: "stats", args: []string{"stats", "-i", "@trees.nw", "--seed", "@SEED", "-o", "@OUT"}},
	{name: "stats-edges", args: []string{"stats", "edges", "-i", "@one.nw", "--seed", "@SEED", "-o", "@OUT"}},
	{name: "stats-nodes", args: []string{"stats", "nodes", "-i", "@one.nw", "--seed", "@SEED", "-o", "@OUT"}},
	{name: "stats-tips", args: []string{"stats", "tips", "-i", "@one.nw", "--seed", "@SEED", "-o", "@OUT"}},
	{name: "stats-splits", args: []string{"stats", "splits", "-i", "@one.nw", "--seed", "@SEED", "-o", "@OUT"}},
	{name: "matrix", args: []string{"matrix", "-i", "@one.nw", "--seed", "@SEED", "-o", "@OUT"}},
	{name: "matrix-avg", args: []string{"matrix", "-i", "@trees.nw", "--avg", "--seed", "@SEED", "-o", "@OUT"}},
	{name: "ltt", args: []string{"ltt", "-i", "@rooted.nw", "--seed", "@SEED", "-o", "@OUT"}},
	{name: "labels", args: []string{"labels", "-i", "@one.nw", "--internal", "--seed", "@SEED"}, stdout: true},
	{name: "divide", args: []string{"divide", "-i", "@trees.nw", "--seed", "@SEED", "-o", "@OUTPREFIX"}},
	{name: "reformat-nexus", args: []string{"reformat", "nexus", "-i", "@trees.nw", "--seed", "@SEED", "-o", "@OUT"}},
	{name: "reformat-newick-from-nextstrain", args: []string{"reformat", "newick", "-i", "@ns.json", "-f", "nextstrain", "--seed", "@SEED", "-o", "@OUT"}},
	{name: "reformat-nexus-from-nextstrain", args: []string{"reformat", "nexus", "-i", "@ns.json", "-f", "nextstrain", "--seed", "@SEED", "-o", "@OUT"}},
	{name: "reformat-phyloxml", args: []string{"reformat", "phyloxml", "-i", "@trees.nw", "--seed", "@SEED", "-o", "@OUT"}},
	{name: "reformat-newick-from-nexus", args: []string{"reformat", "newick", "-i", "@trees.nx", "-f", "nexus", "--seed", "@SEED", "-o", "@OUT"}},
	{name: "consensus", args: []string{"compute", "consensus", "-i", "@trees.nw", "-f", "0.5", "--seed", "@SEED", "-o", "@OUT"}},
	{name: "reroot-midpoint-big", args: []string{"reroot", "midpoint", "-i", "@big.nw", "--seed", "@SEED", "-o", "@OUT"}},
	{name: "stats-big", args: []string{"stats", "-i", "@big.nw", "--seed", "@SEED", "-o", "@OUT"}},
	{name: "bipartitiontree-repeated-names", args: []string{"compute", "bipartitiontree", "-i", "@one.nw", "t3", "t0", "t5", "t3", "--seed", "@SEED", "-o", "@OUT"}},
	{name: "bipartitiontree-names-only", args: []string{"compute", "bipartitiontree", "-i", "@one.nw", "t4", "t1", "t2", "--seed", "@SEED", "-o", "@OUT"}},
	{name: "bipartitiontree", args: []string{"compute", "bipartitiontree", "-i", "@one.nw", "-f", "@tips.txt", "--seed", "@SEED", "-o", "@OUT"}},
	{name: "compare-edges", args: []string{"compare", "edges", "-i", "@ref.nw", "-c", "@trees.nw", "--seed", "@SEED"}, stdout: true},
	{name: "compare-edges-transfer", args: []string{"compare", "edges", "-i", "@ref.nw", "-c", "@trees.nw", "-m", "--moved-taxa", "--seed", "@SEED"}, stdout: true},
	{name: "compare-tips", args: []string{"compare", "tips", "-i", "@one.nw", "-c", "@small.nw", "--seed", "@SEED"}, stdout: true},
	{name: "annotate", args: []string{"annotate", "-i", "@one.nw", "-m", "@annot.txt", "--seed", "@SEED", "-o", "@OUT"}},
	{name: "comment-clear", args: []string{"comment", "clear", "-i", "@one.nw", "--seed", "@SEED", "-o", "@OUT"}},
	{name: "draw-text", args: []string{"draw", "text", "-i", "@one.nw", "-w", "40", "--seed", "@SEED", "-o", "@OUT"}},
}

func init() {
	Register(&Engine{
		Name: "c18", Prop: "C18",
		Rule: fmt.Sprintf("case = (one of %d command templates with --seed given, generated input files: tree collections on 6..9 taxa, multifurcating / binary / rooted trees, a "+
			"Nextstrain export with mutations of several genes per branch, for half of the cases branch lengths that are not dyadic (sums depend on the order of the additions), a "+
			"protein alignment with the ambiguity code X and gaps, a nucleotide alignment with IUPAC codes, tip states, rename / annotation / tip / group files; thread "+
			"count 1..4 for threaded commands; two seam settings A and B, each = (map-iteration order seed, wall-clock epoch, goroutine schedule)). The command runs "+
			"in-process through cmd.RootCmd inside the scheduler under A, under B, (for half of the cases: another template, often of the same command family, in between,) under A again, under 3..10 further schedules (map order and clock as in A) for three quarters of the cases whose first run started goroutines, and — for a share of the cases — as separate OS processes of the "+
			"instrumented binary under both map seeds. Oracle: all outputs (main output, extra files, stdout) byte-identical; per-tree records of threaded commands "+
			"compared after sorting lines; documented date lines of support logs masked. Non-trivial: the command succeeded and wrote ≥ 1 non-empty output; distinct = "+
			"distinct (template, inputs, seed, threads). Before the seeded search every template is executed on 6 (quick) / 48 (thorough) generated inputs with the ten-schedule sweep, so that no template depends on being drawn", len(detTemplates)),
		Gen:  genC18,
		Enum: enumC18,
		New:  func() any { return &DetCase{} },
		Exec: execC18,
		Real: []string{"cmd.RootCmd and every command of the templates (cobra, flag parsing, readers, writers)", "asr / acr parsimony", "generators and randomised edits through the global math/rand source",
			"the instrumented gotree binary as a separate process"},
		Simulated: []string{"map-iteration order of every string/integer-keyed map range in gotree (seeded permutation of the sorted keys)", "goroutine schedule", "wall clock", "process boundary"},
		Expected:  []string{"ran-ok", "cross-process", "threads>1", "mapseed-differs", "epoch-differs", "asr-protein-with-X", "interfering-command", "schedule-sweep"},
	})
}

func init() {
	base := Engines["c18"]
	thr := *base
	thr.Enum = nil
	thr.Name = "c18thr"
	thr.Rule = "as c18, restricted to the templates that take -t, with 2..4 threads; this engine also runs in the -race binary (race detector kept live under the serialised " +
		"schedule), where a data race between worker goroutines is reported as a violation: a racy update is a result that may differ from run to run"
	thr.Gen = func(rt *rapid.T, tier string) any {
		c := genC18(rt, tier).(*DetCase)
		var names []string
		for _, t := range detTemplates {
			if t.threaded {
				names = append(names, t.name)
			}
		}
		c.Template = rapid.SampledFrom(names).Draw(rt, "thrtemplate")
		c.Threads = rapid.SampledFrom([]int{2, 3, 4}).Draw(rt, "thrthreads")
		c.Proc = false
		return c
	}
	thr.Expected = []string{"ran-ok", "threads>1"}
	Register(&thr)
}

func genDetFiles(rt *rapid.T, withBig bool, nondyadic int, bigmode int) map[string]string {
	r := rapidRnd{rt}
	files := map[string]string{}
	ntax := rapid.IntRange(6, 9).Draw(rt, "ntax")
	tx := taxa(ntax, "t")
	withSup := func(m *RNode) *RNode {
		for _, x := range m.all() {
			if !x.IsTip() && x.Parent != nil {
				x.Label = strconv.FormatFloat(float64(rapid.IntRange(0, 8).Draw(rt, "sup"))/8, 'f', -1, 64)
			}
		}
		return m
	}
	base := RandomTree(tx, r, 2, true)
	var trees []string
	for i := rapid.IntRange(3, 6).Draw(rt, "ntrees"); i > 0; i-- {
		trees = append(trees, related(base, r, 2, 1).Newick())
	}
	files["trees.nw"] = strings.Join(trees, "\n") + "\n"
	files["ref.nw"] = withSup(related(base, r, 1, 0)).Newick() + "\n"
	// the same collection with one tree on other taxa somewhere in the middle
	bad := append([]string(nil), trees...)
	pos := r.Intn(len(bad))
	bad[pos] = replaceTip(bad[pos], tx[r.Intn(len(tx))], "FOREIGN")
	files["trees_bad.nw"] = strings.Join(bad, "\n") + "\n"
	// a collection longer than the 10-record buffer of the reader goroutine, with a malformed tree near its end
	var long []string
	for i := 0; i < 16; i++ {
		long = append(long, trees[i%len(trees)])
	}
	lp := 11 + r.Intn(4)
	long[lp] = strings.Replace(long[lp], ")", "", 1)
	files["trees_long_bad.nw"] = strings.Join(long, "\n") + "\n"
	files["ref.nx"] = "#NEXUS\nBEGIN TREES;\nTREE ref = " + strings.TrimSpace(files["ref.nw"]) + "\nEND;\n"
	files["one.nw"] = withSup(RandomTree(tx, r, 4, true)).Newick() + "\n"
	files["bin.nw"] = RandomTree(tx, r, 2, true).Newick() + "\n"
	rooted := RandomTree(tx, r, 3, true)
	all := rooted.all()
	files["rooted.nw"] = rootAtRandom(rooted, all, r).Newick() + "\n"
	files["small.nw"] = RandomTree(tx[:4], r, 2, true).Newick() + "\n"
	files["other.nw"] = "((o1:0.5,o2:0.25):0.125,o3:1);\n"
	var nx strings.Builder
	nx.WriteString("#NEXUS\nBEGIN TAXA;\n DIMENSIONS NTAX=" + strconv.Itoa(ntax) + ";\n TAXLABELS " + strings.Join(tx, " ") + ";\nEND;\nBEGIN TREES;\n")
	for i, t := range trees {
		fmt.Fprintf(&nx, "TREE tree%d = %s\n", i, t)
	}
	nx.WriteString("END;\n")
	files["trees.nx"] = nx.String()
	aa := []byte("ACDEFGHIKLMNPQRSTVWY")
	var prot, nt, states strings.Builder
	ncol := rapid.IntRange(3, 6).Draw(rt, "ncol")
	for _, name := range tx {
		prot.WriteString(">" + name + "\n")
		nt.WriteString(">" + name + "\n")
		for c := 0; c < ncol; c++ {
			switch rapid.IntRange(0, 5).Draw(rt, "aakind") {
			case 0:
				prot.WriteByte('X')
			case 1:
				prot.WriteByte('-')
			default:
				prot.WriteByte(aa[rapid.IntRange(0, 3).Draw(rt, "aa")*5+c%5])
			}
			nt.WriteByte("ACGTNRY-"[rapid.IntRange(0, 7).Draw(rt, "nt")])
		}
		prot.WriteString("\n")
		nt.WriteString("\n")
		states.WriteString(name + "\t" + []string{"x", "y", "z", "w"}[rapid.IntRange(0, 3).Draw(rt, "state")] + "\n")
	}
	files["prot.fa"], files["nt.fa"], files["states.txt"] = prot.String(), nt.String(), states.String()
	// states that are equal as numbers but different as text
	var numstates strings.Builder
	for i, name := range tx {
		numstates.WriteString(name + "\t" + []string{"1", "1.0", "2", "02", "nan", "1e1", "10"}[(i+rapid.IntRange(0, 6).Draw(rt, "numstate"))%7] + "\n")
	}
	files["numstates.txt"] = numstates.String()
	files["map.txt"] = "t0\tA0\nt1\tB1\nt2\tC2\n"
	// a chained map: some new names are other nodes' old names
	files["chain.txt"] = "t0\tt1\nt1\tt2\nt2\tt3\nt3\tt4\nt4\tzz\nt0x\tt1x\nt1x\tt2x\nt2x\tyy\n"
	named := RandomTree(tx, r, 3, true)
	for i, x := range innerNodes(named) {
		x.Label = "t" + strconv.Itoa(i) + "x"
	}
	files["named.nw"] = named.Newick() + "\n"
	// numeric tip names overlapping the indices of a translate table
	var numtx []string
	for i := range tx {
		numtx = append(numtx, strconv.Itoa(i+1))
	}
	var numtrees []string
	for i := 0; i < 3; i++ {
		numtrees = append(numtrees, RandomTree(numtx, r, 3, true).Newick())
	}
	files["numeric.nw"] = strings.Join(numtrees, "\n") + "\n"
	var nnx strings.Builder
	nnx.WriteString("#NEXUS\nBEGIN TAXA;\n DIMENSIONS NTAX=" + strconv.Itoa(ntax) + ";\n TAXLABELS " + strings.Join(numtx, " ") + ";\nEND;\nBEGIN TREES;\n TRANSLATE\n")
	for i, n := range numtx {
		sep := ","
		if i == len(numtx)-1 {
			sep = ""
		}
		fmt.Fprintf(&nnx, "  %d %s%s\n", i, n, sep)
	}
	nnx.WriteString(" ;\n")
	for i, t := range numtrees {
		tt := t
		for j := len(numtx) - 1; j >= 0; j-- { // write the trees with the indices
			tt = replaceTip(tt, numtx[j], "#"+strconv.Itoa(j))
		}
		fmt.Fprintf(&nnx, " TREE t%d = %s\n", i, strings.ReplaceAll(tt, "#", ""))
	}
	nnx.WriteString("END;\n")
	files["numeric.nx"] = nnx.String()
	files["tips.txt"] = "t0\nt2\nt3\n"
	files["groups.txt"] = "t0,n0a,n0b\nt3,n3a\n"
	files["annot.txt"] = "anc1:t0,t1\nanc2:t2,t3,t4\n"
	// more than a thousand tips: code paths meant for large inputs
	files["big.nw"] = "(a,b,c);\n"
	if withBig {
		files["big.nw"] = bigTreeText(int64(rapid.IntRange(1, 1<<30).Draw(rt, "bigseed")), rapid.SampledFrom([]int{1001, 1025}).Draw(rt, "bigsize"), false) + "\n"
		bm := rapid.IntRange(0, 3).Draw(rt, "bigmode")
		if bigmode >= 0 {
			bm = bigmode
		}
		switch bm {
		case 3:
			// long taxon names (accession + species + place + date): the text of one tree exceeds 64 KiB
			files["big.nw"] = regexp.MustCompile(`b([0-9]+)`).ReplaceAllString(files["big.nw"], "EPI_ISL_${1}_Severe_acute_respiratory_syndrome_coronavirus_2_hCoV-19_2021-03-14")
		case 1:
			// every branch of the same length: many pairs of tips are exactly as far apart as the two most distant ones (ties in every "longest" / "closest" search)
			files["big.nw"] = regexp.MustCompile(`:[0-9.]+`).ReplaceAllString(files["big.nw"], ":1")
		case 2:
			// two very divergent sister taxa: the longest path joins two tips that are next to each other in every traversal, and is as long from either end
			cherry := regexp.MustCompile(`\((b[0-9]+):[0-9.]+,(b[0-9]+):[0-9.]+\)`)
			if ms := cherry.FindAllStringSubmatchIndex(files["big.nw"], -1); len(ms) > 0 {
				m := ms[rapid.IntRange(0, 1<<20).Draw(rt, "cherry")%len(ms)]
				t := files["big.nw"]
				files["big.nw"] = t[:m[0]] + "(" + t[m[2]:m[3]] + ":500," + t[m[4]:m[5]] + ":500)" + t[m[1]:]
			}
		}
	}
	// a Nextstrain export without the "aa" label: mutations of several genes on the same branch
	files["ns.json"] = `{"version":"v2","meta":{"title":"t"},"tree":{"name":"NODE_0","node_attrs":{"div":0},"children":[` +
		`{"name":"t0","node_attrs":{"div":1.5},"branch_attrs":{"mutations":{"nuc":["A1T","C22G"],"S":["D614G"],"ORF1a":["T265I","P4715L"],"N":["R203K","G204R"],"E":["P71L"],"M":["I82T"]}}},` +
		`{"name":"NODE_1","node_attrs":{"div":0.25},"branch_attrs":{"labels":{"aa":"S: N501Y; N: D3L"},"mutations":{"nuc":["G3A"],"S":["N501Y"],"N":["D3L"]}},"children":[` +
		`{"name":"t1","node_attrs":{"div":1},"branch_attrs":{"mutations":{"ORF3a":["Q57H"],"ORF8":["L84S"],"ORF1b":["P314L"],"S":["A222V"]}}},{"name":"t2","node_attrs":{"div":2}}]}]}}`
	if nd := rapid.Bool().Draw(rt, "nondyadic"); (nd && nondyadic < 0) || nondyadic == 1 {
		// lengths whose sums depend on the order of the additions
		re := regexp.MustCompile(`:[0-9]+(\.[0-9]+)?`)
		for name, text := range files {
			if strings.HasSuffix(name, ".nw") || strings.HasSuffix(name, ".nx") {
				files[name] = re.ReplaceAllStringFunc(text, func(m string) string {
					v, err := strconv.ParseFloat(m[1:], 64)
					if err != nil {
						return m
					}
					return ":" + strconv.FormatFloat(v/3+0.1, 'g', -1, 64)
				})
			}
		}
	}
	return files
}

func genSeam(rt *rapid.T, label string) Seam {
	return Seam{MapSeed: uint64(rapid.IntRange(1, 1<<20).Draw(rt, label+"map")), Epoch: int64(rapid.SampledFrom([]int{1000, 5, 1700000000, 99999999999}).Draw(rt, label+"epoch")), Sched: genSched(rt)}
}

func genC18(rt *rapid.T, tier string) any { return genC18T(rt, tier, "", -1, -1) }

// enumC18 gives every template a floor of executions per batch set, whatever the seeded search happens to draw: template i is
// executed with k = 0..K-1 generated inputs (generator seeded by (i, k)), each with the full schedule sweep.
func enumC18(tier string, batch, nbatch int) []any {
	K := 6
	if tier == "thorough" {
		K = 48
	}
	var out []any
	for i := range detTemplates {
		for k := 0; k < K; k++ {
			if (i*K+k)%nbatch != batch {
				continue
			}
			name := detTemplates[i].name
			gen := rapid.Custom(func(rt *rapid.T) any { return genC18T(rt, tier, name, k%2, k%4) })
			c := gen.Example(1000*i + k + 1).(*DetCase)
			c.Sweep = 10
			out = append(out, c)
		}
	}
	return out
}

func genC18T(rt *rapid.T, tier string, forced string, nondyadic int, bigmode int) any {
	c := &DetCase{}
	c.Template = detTemplates[rapid.IntRange(0, len(detTemplates)-1).Draw(rt, "template")].name
	if rapid.IntRange(0, 9).Draw(rt, "priority") < 4 {
		// the templates whose code ranges over maps or runs worker pools are drawn more often (the first 25 of the list)
		c.Template = detTemplates[rapid.IntRange(0, 24).Draw(rt, "ptemplate")].name
	}
	if only := os.Getenv("VERIF_C18_TEMPLATE"); only != "" && templateByName(only) != nil {
		c.Template = only // developer aid: measure one template at a time (never set by the registered commands)
	}
	if forced != "" {
		c.Template = forced
	}
	c.Seed = rapid.IntRange(0, 1000).Draw(rt, "seed")
	c.Threads = rapid.SampledFrom([]int{1, 2, 3, 4}).Draw(rt, "threads")
	c.SeamA, c.SeamB = genSeam(rt, "a"), genSeam(rt, "b")
	c.Proc = rapid.IntRange(0, 3).Draw(rt, "proc") == 0
	c.Sweep = rapid.SampledFrom([]int{0, 3, 6, 10}).Draw(rt, "sweep")
	if rapid.Bool().Draw(rt, "interfere") {
		c.Interfere = detTemplates[rapid.IntRange(0, len(detTemplates)-1).Draw(rt, "itemplate")].name
		if rapid.Bool().Draw(rt, "samefamily") {
			// another command of the same family (same first word: asr after asr, compute after compute, ...)
			family := func(t *detTemplate) string {
				if len(t.args) == 0 {
					return "lib"
				}
				return t.args[0]
			}
			fam := family(templateByName(c.Template))
			var same []string
			for i := range detTemplates {
				t := &detTemplates[i]
				if family(t) == fam && t.name != c.Template {
					same = append(same, t.name)
				}
			}
			if len(same) > 0 {
				c.Interfere = rapid.SampledFrom(same).Draw(rt, "ifamily")
			}
		}
	}
	// the big input exists when the template or the interfering template reads it
	c.Files = genDetFiles(rt, strings.HasSuffix(c.Template, "-big") || strings.HasSuffix(c.Interfere, "-big"), nondyadic, bigmode)
	return c
}

func templateByName(n string) *detTemplate {
	for i := range detTemplates {
		if detTemplates[i].name == n {
			return &detTemplates[i]
		}
	}
	return nil
}

func resetFlags(c *cobra.Command) {
	reset := func(f *pflag.Flag) {
		if sv, ok := f.Value.(pflag.SliceValue); ok {
			sv.Replace(nil)
		} else {
			f.Value.Set(f.DefValue)
		}
		f.Changed = false
	}
	c.Flags().VisitAll(reset)
	c.PersistentFlags().VisitAll(reset)
	for _, sub := range c.Commands() {
		resetFlags(sub)
	}
}

var dateLine = regexp.MustCompile(`(?m)^(Date|Start|End)( *): .*$`)

type detResult struct {
	outs   map[string]string
	status string
}

func (tpl *detTemplate) expand(dir string, c *DetCase, tag string) (args []string, outFiles map[string]string) {
	outFiles = map[string]string{}
	for _, a := range tpl.args {
		switch {
		case a == "@SEED":
			a = strconv.Itoa(c.Seed)
		case a == "@T":
			a = strconv.Itoa(c.Threads)
		case a == "@OUT" || a == "@X1" || a == "@X2":
			p := filepath.Join(dir, "out."+a[1:]) // the same path in every run: some logs print it
			outFiles[a[1:]] = p
			a = p
		case a == "@OUTPREFIX":
			p := filepath.Join(dir, "out.PFX")
			outFiles["PFX*"] = p
			a = p
		case strings.HasPrefix(a, "@"):
			a = filepath.Join(dir, a[1:])
		}
		args = append(args, a)
	}
	return
}

func collectOutputs(outFiles map[string]string, stdout string, tpl *detTemplate) map[string]string {
	outs := map[string]string{}
	for name, p := range outFiles {
		if strings.HasSuffix(name, "*") {
			ms, _ := filepath.Glob(p + "*")
			sort.Strings(ms)
			for _, m := range ms {
				b, _ := os.ReadFile(m)
				outs["PFX"+strings.TrimPrefix(m, p)] = string(b)
				os.Remove(m)
			}
			continue
		}
		b, err := os.ReadFile(p)
		if err != nil {
			outs[name] = "<not written>"
			continue
		}
		outs[name] = dateLine.ReplaceAllString(string(b), "$1$2: <date>")
		os.Remove(p)
	}
	if tpl.stdout {
		outs["stdout"] = stdout
	}
	if tpl.perTree {
		for k, v := range outs {
			lines := strings.Split(v, "\n")
			sort.Strings(lines)
			outs[k] = strings.Join(lines, "\n")
		}
	}
	return outs
}

func runInProcess(t *testing.T, dir string, tpl *detTemplate, c *DetCase, seam Seam, tag string) detResult {
	return runInProcessRes(t, dir, tpl, c, seam, tag, nil)
}

func runInProcessRes(t *testing.T, dir string, tpl *detTemplate, c *DetCase, seam Seam, tag string, out *sched.Result) detResult {
	if tpl.lib != nil {
		var text string
		var lerr error
		cfg := seam.Sched.Config(3_000_000)
		cfg.MapSeed, cfg.HasMapSeed, cfg.Epoch = seam.MapSeed, true, seam.Epoch
		res := sched.Run(t, cfg, func() {
			rand.Seed(int64(c.Seed))
			text, lerr = tpl.lib(c.Files, c)
		})
		if out != nil {
			*out = res
		}
		status := "ok"
		switch {
		case len(res.Panics) > 0:
			status = "panic: " + res.Panics[0].Value
		case res.Exit != nil:
			status = fmt.Sprintf("exit(%d)", res.Exit.Code)
		case res.Deadlock:
			status = "deadlock"
		case lerr != nil:
			status = "error: " + lerr.Error()
		}
		return detResult{map[string]string{"OUT": text}, status}
	}
	args, outFiles := tpl.expand(dir, c, tag)
	stdoutPath := filepath.Join(dir, tag+".stdout")
	f, err := os.Create(stdoutPath)
	if err != nil {
		panic("harness: " + err.Error())
	}
	realStdout := os.Stdout
	os.Stdout = f
	resetFlags(cmd.RootCmd)
	var cerr error
	cfg := seam.Sched.Config(3_000_000)
	cfg.MapSeed, cfg.HasMapSeed, cfg.Epoch = seam.MapSeed, true, seam.Epoch
	res := sched.Run(t, cfg, func() {
		cmd.RootCmd.SetArgs(args)
		cerr = cmd.RootCmd.Execute()
	})
	os.Stdout = realStdout
	f.Close()
	if out != nil {
		*out = res
	}
	sb, _ := os.ReadFile(stdoutPath)
	os.Remove(stdoutPath)
	status := "ok"
	switch {
	case len(res.Panics) > 0:
		status = "panic: " + res.Panics[0].Value
	case res.Exit != nil:
		status = fmt.Sprintf("exit(%d)", res.Exit.Code)
	case res.Deadlock:
		status = "deadlock"
	case res.Budget:
		status = "step-budget"
	case cerr != nil:
		status = "error: " + cerr.Error()
	}
	return detResult{collectOutputs(outFiles, string(sb), tpl), status}
}

func runProcess(dir string, tpl *detTemplate, c *DetCase, seam Seam, tag string) (detResult, error) {
	bin := os.Getenv("VERIF_GOTREE_BIN")
	if bin == "" {
		return detResult{}, fmt.Errorf("VERIF_GOTREE_BIN not set")
	}
	args, outFiles := tpl.expand(dir, c, tag)
	p := exec.Command(bin, args...)
	p.Env = append(os.Environ(), "VERIF_MAPSEED="+strconv.FormatUint(seam.MapSeed, 10), "VERIF_EPOCH="+strconv.FormatInt(seam.Epoch, 10))
	var so strings.Builder
	p.Stdout = &so
	err := p.Run()
	status := "ok"
	if err != nil {
		if _, isExit := err.(*exec.ExitError); !isExit {
			return detResult{}, err
		}
		status = "error"
	}
	return detResult{collectOutputs(outFiles, so.String(), tpl), status}, nil
}

func diffResults(a, b detResult, crossProcess bool) string {
	sa, sb := a.status, b.status
	if crossProcess { // a process only tells success from failure
		if sa != "ok" {
			sa = "error"
		}
		if sb != "ok" {
			sb = "error"
		}
	}
	if strings.HasPrefix(sa, "error") && strings.HasPrefix(sb, "error") {
		// both runs report an error to the caller: what a streaming command had already printed when the error arrived is not a result
		// (with several threads it depends on which records were finished first)
		return ""
	}
	if sa != sb {
		return fmt.Sprintf("status %q vs %q", a.status, b.status)
	}
	for _, k := range sortedKeys(a.outs) {
		if crossProcess && sa != "ok" && k == "stdout" {
			continue // usage text goes to different streams
		}
		if a.outs[k] != b.outs[k] {
			return fmt.Sprintf("output %s differs:\n--- first\n%s\n--- second\n%s", k, clip(a.outs[k]), clip(b.outs[k]))
		}
	}
	if len(a.outs) != len(b.outs) {
		return fmt.Sprintf("different output files: %v vs %v", sortedKeys(a.outs), sortedKeys(b.outs))
	}
	return ""
}

func clip(s string) string {
	if len(s) > 1500 {
		return s[:1500] + "…"
	}
	return s
}

func execC18(t *testing.T, cc any, o *Outcome) {
	c := cc.(*DetCase)
	tpl := templateByName(c.Template)
	if tpl == nil {
		panic("harness: unknown template " + c.Template)
	}
	dir, err := os.MkdirTemp("", "verifc18")
	if err != nil {
		panic("harness: " + err.Error())
	}
	defer os.RemoveAll(dir)
	for name, content := range c.Files {
		if err := os.WriteFile(filepath.Join(dir, name), []byte(content), 0644); err != nil {
			panic("harness: " + err.Error())
		}
	}
	if !tpl.threaded {
		c.Threads = 1
	}
	ctx := fmt.Sprintf("template %s: %s\n--seed %d, threads %d", tpl.name, strings.Join(tpl.args, " "), c.Seed, c.Threads)
	if tpl.lib != nil {
		ctx = fmt.Sprintf("library calls %s (sim/c18.go), rand.Seed(%d)", tpl.name, c.Seed)
	}
	seamText := func(s Seam) string {
		return fmt.Sprintf("map-order seed %d, epoch %d, schedule strategy %d seed %d", s.MapSeed, s.Epoch, s.Sched.Strategy, s.Sched.Seed)
	}
	var resA sched.Result
	a1 := runInProcessRes(t, dir, tpl, c, c.SeamA, "a1", &resA)
	b := runInProcess(t, dir, tpl, c, c.SeamB, "b")
	if resA.Goroutines > 1 && c.Sweep > 0 {
		// the code under test is concurrent: more schedules of the same command, everything else as in A
		o.Probe("schedule-sweep")
		for k := 1; k <= c.Sweep; k++ {
			s := c.SeamA
			s.Sched.Strategy = k % 5
			s.Sched.Seed = c.SeamA.Sched.Seed*31 + uint64(k)*0x9E3779B97F4A7C15
			s.Sched.Choices = nil
			s.Sched.SitePct = 100
			s.Sched.PCT = nil
			if s.Sched.Strategy == 3 {
				s.Sched.PCT = []int{1 + int(s.Sched.Seed%97), 1 + int(s.Sched.Seed/97%211)}
			}
			s.Sched.Quantum = []int{0, 1000, 50, 17}[k/4%4]
			sk := runInProcess(t, dir, tpl, c, s, "s"+strconv.Itoa(k))
			if d := diffResults(a1, sk, false); d != "" {
				o.Fail("nondeterministic:"+tpl.name, "the output depends on the goroutine schedule (map order and clock unchanged)\n%s\nseam A: %s\nswept schedule %d: %s\n%s", ctx, seamText(c.SeamA), k, seamText(s), d)
				return
			}
		}
	}
	if itpl := templateByName(c.Interfere); itpl != nil {
		ic := *c
		if !itpl.threaded {
			ic.Threads = 1
		}
		runInProcess(t, dir, itpl, &ic, c.SeamB, "x") // result ignored: only its side effects on the process matter
		o.Probe("interfering-command")
	}
	a2 := runInProcess(t, dir, tpl, c, c.SeamA, "a2")
	o.Steps = 3
	if a1.status == "ok" {
		o.Probe("ran-ok")
		o.Probe("ran-ok:" + tpl.name)
		for _, v := range a1.outs {
			if len(v) > 0 && v != "<not written>" {
				o.Nontrivial = true
			}
		}
	} else {
		o.Probe("failed:" + tpl.name)
	}
	if c.Threads > 1 {
		o.Probe("threads>1")
	}
	if c.SeamA.MapSeed != c.SeamB.MapSeed {
		o.Probe("mapseed-differs")
	}
	if c.SeamA.Epoch != c.SeamB.Epoch {
		o.Probe("epoch-differs")
	}
	if strings.HasPrefix(tpl.name, "asr-protein") && strings.Contains(c.Files["prot.fa"], "X") {
		o.Probe("asr-protein-with-X")
	}
	o.Key = fmt.Sprintf("%s/%d/%d/%x", tpl.name, c.Seed, c.Threads, hashString(fmt.Sprint(c.Files)))
	if d := diffResults(a1, a2, false); d != "" {
		o.Fail("nondeterministic:same-seams:"+tpl.name, "two runs in one process under the SAME seam settings differ (state carried over from the previous run)\n%s\nseams: %s\n%s", ctx, seamText(c.SeamA), d)
		return
	}
	if d := diffResults(a1, b, false); d != "" {
		cause := "schedule"
		switch {
		case c.SeamA.MapSeed != c.SeamB.MapSeed:
			cause = "map-order/clock/schedule"
		}
		o.Fail("nondeterministic:"+tpl.name, "the output depends on a seam (%s)\n%s\nseam A: %s\nseam B: %s\n%s", cause, ctx, seamText(c.SeamA), seamText(c.SeamB), d)
		return
	}
	if c.Proc && tpl.lib == nil {
		pa, err := runProcess(dir, tpl, c, c.SeamA, "pa")
		if err != nil {
			panic("harness: cannot run the instrumented binary: " + err.Error())
		}
		pb, _ := runProcess(dir, tpl, c, c.SeamB, "pb")
		o.Probe("cross-process")
		if d := diffResults(a1, pa, true); d != "" {
			o.Fail("nondeterministic:across-processes:"+tpl.name, "a new process gives another result than the same command in-process under the same seams\n%s\nseams: %s\n%s", ctx, seamText(c.SeamA), d)
			return
		}
		if d := diffResults(pa, pb, true); d != "" {
			o.Fail("nondeterministic:across-processes:"+tpl.name, "two processes under different seams differ\n%s\nseam A: %s\nseam B: %s\n%s", ctx, seamText(c.SeamA), seamText(c.SeamB), d)
		}
	}
}
