package sim

// C13 — format conversions and reader entry points agree.
// Engine iosim + schedsim: conversion chains through gotree's writers and readers over simulated
// (chunked) streams, the multi-tree reader goroutine under the deterministic scheduler.

import (
	"bufio"
	"encoding/xml"
	"fmt"
	"hash/fnv"
	"io"
	"regexp"
	"strconv"
	"strings"
	"testing"

	"github.com/evolbioinfo/gotree/io/nexus"
	"github.com/evolbioinfo/gotree/io/phyloxml"
	"github.com/evolbioinfo/gotree/io/utils"
	"github.com/evolbioinfo/gotree/tree"
	"pgregory.net/rapid"
	"sim/sched"
	"verifhook"
)

type C13Case struct {
	Trees  []string  `json:"trees"` // source list, Newick
	Bad    int       `json:"bad"`   // position of a malformed tree inserted in the Newick stream (-1: none)
	Blank  []int     `json:"blank"` // positions after which a blank line is inserted in the Newick stream
	CRLF   bool      `json:"crlf,omitempty"`
	Trail  []string  `json:"trail,omitempty"`  // blanks written after the ';' of tree i (cyclic)
	Wrap   []int     `json:"wrap,omitempty"`   // token boundaries of the Newick stream after which a line break is inserted (cyclic step sizes)
	Hetero bool      `json:"hetero,omitempty"` // the trees are not all on the same taxa: a reader may then report an error instead of delivering
	Chain  []string  `json:"chain"`            // conversion chain, e.g. ["nexus","phyloxml","nexus+t"]
	BufSz  int       `json:"bufsz"`
	Chunks []int     `json:"chunks"`
	Sched  SchedCase `json:"sched"`
}

func init() {
	Register(&Engine{
		Name: "c13", Prop: "C13",
		Rule: "case = (list of 1..6 (sometimes 10..13) trees on 3..13 taxa: rooted or not, multifurcating, with / without / partly with lengths, supports or inner names, names from " +
			"[A-Za-z0-9_.] incl. a few purely numeric ones; a conversion chain of 1..3 hops over {Nexus, Nexus+translate, Tree.Nexus, PhyloXML}; chunk plan, " +
			"bufio size, reader/consumer schedule; optionally one malformed tree at position j, blank lines, blanks and tabs after a tree's ';', CRLF). Every hop is written by gotree's writer fed " +
			"through a channel and read back by ReadMultiTrees (real goroutine, scheduled) and by ReadTreeReader from a simulated chunked stream. Oracle: the " +
			"reference-model view (shape with child order, names, lengths, supports) after each hop equals the source's; ids are 0,1,2,… in file order; a " +
			"malformed tree at j gives trees 0..j-1 then exactly one error record; single reader = first record of the multi reader (or both fail), for the " +
			"four input formats and for a PhyloXML document of the first tree written by the harness as another program would (rooted attribute true and " +
			"false whatever the shape). Names also carry multi-byte runes, XML-special characters and format verbs; a tenth of the lengths have many " +
			"significant digits (1e-12 .. 1e21). Non-trivial: ≥ 2 trees or ≥ 2 hops; distinct = distinct (tree texts, chain)",
		Gen:  genC13,
		New:  func() any { return &C13Case{} },
		Exec: execC13,
		Real: []string{"Tree.Newick", "Tree.Nexus", "nexus.WriteNexus", "phyloxml.WritePhyloXML", "nexus.Parser", "phyloxml.Parser", "nextstrain.Parser", "newick.Parser",
			"fileutils.ReadUntilSemiColon", "utils.ReadMultiTrees reader goroutine", "utils.ReadTreeReader"},
		Simulated: []string{"input byte stream (chunk plan, zero-length reads, buffer size)", "reader goroutine vs. consumer schedule", "position of the malformed tree"},
		Expected:  []string{"hop:nexus", "hop:nexus+t", "hop:treenexus", "hop:phyloxml", "blanks-after-semicolon", "tree-wrapped-over-lines", "heterogeneous-taxa", "malformed-at-0", "malformed-in-middle", "numeric-names", "rooted-tree", "isprefix-path", "single-vs-multi:nextstrain", "single-vs-multi:phyloxml-foreign"},
	})
}

func genC13(rt *rapid.T, tier string) any {
	r := rapidRnd{rt}
	c := &C13Case{Bad: -1}
	ntax := rapid.IntRange(3, 13).Draw(rt, "ntax")
	var tx []string
	numeric := rapid.IntRange(0, 9).Draw(rt, "numeric") == 0
	for i := 0; i < ntax; i++ {
		switch {
		case numeric && i%2 == 0:
			tx = append(tx, strconv.Itoa(i+rapid.IntRange(0, 3).Draw(rt, "numoff")*100)) // unique: i < 100
		default:
			tx = append(tx, rapid.SampledFrom([]string{"t", "Tx_", "sp.", "A", "z9_", "Mé", "p%d_", "日", "a|b#", "x&y"}).Draw(rt, "prefix")+strconv.Itoa(i))
		}
	}
	c.Hetero = rapid.IntRange(0, 7).Draw(rt, "hetero") == 0
	ntrees := rapid.IntRange(1, 6).Draw(rt, "ntrees")
	if rapid.IntRange(0, 7).Draw(rt, "manytrees") == 0 {
		ntrees = rapid.IntRange(10, 13).Draw(rt, "ntreesmany") // tree10 sorts before tree2
	}
	for i := 0; i < ntrees; i++ {
		lenMode := rapid.IntRange(0, 3).Draw(rt, "lenmode") // 0 none, 1 mixed, else all
		innerSerial := 0
		m := RandomTree(tx, r, rapid.IntRange(2, 4).Draw(rt, "maxdeg"), lenMode >= 1)
		if rapid.IntRange(0, 2).Draw(rt, "rooted") == 0 {
			all := m.all()
			m = rootAtRandom(m, all, r)
		}
		for _, x := range m.all() {
			if lenMode == 1 && rapid.Bool().Draw(rt, "droplen") {
				x.HasLen = false
			}
			if x.HasLen && rapid.IntRange(0, 9).Draw(rt, "oddlen") == 0 {
				// lengths with many significant digits, tiny or large: a writer must not round them
				x.Len = []float64{1.23456789e-7, 3.0000000001e-9, 123456.789, 1e-12, 0.1 + 0.2, 9.87654321e-5, 1e21}[rapid.IntRange(0, 6).Draw(rt, "oddlenv")]
			}
			if !x.IsTip() && x.Parent != nil {
				switch rapid.IntRange(0, 3).Draw(rt, "innerlabel") {
				case 0:
					x.Label = strconv.FormatFloat(float64(rapid.IntRange(0, 8).Draw(rt, "sup"))/8, 'f', -1, 64)
				case 1:
					if rapid.IntRange(0, 3).Draw(rt, "innername") == 0 {
						innerSerial++ // inner names are unique within a tree (duplicates are not "well-formed" for the renaming writers)
						x.Label = "in" + strconv.Itoa(innerSerial)
					}
				}
			}
		}
		if rapid.IntRange(0, 5).Draw(rt, "rootname") == 0 {
			m.Label = "root" + strconv.Itoa(i)
		}
		if c.Hetero && i > 0 && len(tx) > 4 && rapid.Bool().Draw(rt, "droptip") {
			// this tree lacks one taxon
			var tips []*RNode
			for _, x := range m.all() {
				if x.IsTip() && x.Parent != nil && len(x.Parent.Children) > 2 {
					tips = append(tips, x)
				}
			}
			if len(tips) > 0 {
				v := tips[r.Intn(len(tips))]
				v.Parent.removeChild(v)
			}
		}
		if rapid.IntRange(0, 5).Draw(rt, "knuckle") == 0 {
			// an inner node with exactly one child (sampled ancestor, pruned tree, taxonomy) above a drawn node
			all := m.all()
			if x := all[r.Intn(len(all))]; x.Parent != nil {
				p := x.Parent
				k := &RNode{Parent: p, Children: []*RNode{x}, HasLen: x.HasLen, Len: 0.375}
				for i, ch := range p.Children {
					if ch == x {
						p.Children[i] = k
					}
				}
				x.Parent = k
			}
		}
		if rapid.IntRange(0, 7).Draw(rt, "tiproot") == 0 {
			// the tree written from one of its tips, "(...)name;": the root node has one neighbour and a taxon name
			var leaves []*RNode
			for _, x := range m.all() {
				if _, err := strconv.ParseFloat(x.Label, 64); x.IsTip() && x.Parent != nil && err != nil {
					leaves = append(leaves, x)
				}
			}
			if len(leaves) > 0 {
				m.Label = ""
				m = RerootAt(leaves[r.Intn(len(leaves))])
			}
		}
		text := m.Newick()
		if rapid.IntRange(0, 5).Draw(rt, "sciupper") == 0 {
			// branch lengths as Java programs write them: scientific notation with an upper-case exponent
			text = regexp.MustCompile(`:[0-9]+(\.[0-9]+)?`).ReplaceAllStringFunc(text, func(s string) string {
				v, err := strconv.ParseFloat(s[1:], 64)
				if err != nil || v == 0 {
					return s
				}
				return ":" + strconv.FormatFloat(v, 'E', -1, 64)
			})
		}
		c.Trees = append(c.Trees, text)
	}
	if rapid.IntRange(0, 3).Draw(rt, "withbad") == 0 {
		c.Bad = rapid.IntRange(0, ntrees).Draw(rt, "badpos")
	}
	c.Blank = rapid.SliceOfN(rapid.IntRange(0, ntrees), 0, 3).Draw(rt, "blank")
	c.CRLF = rapid.IntRange(0, 5).Draw(rt, "crlf") == 0
	if rapid.IntRange(0, 3).Draw(rt, "wrapped") == 0 {
		c.Wrap = rapid.SliceOfN(rapid.IntRange(1, 9), 1, 4).Draw(rt, "wrap")
	}
	c.Trail = rapid.SliceOfN(rapid.SampledFrom([]string{"", "", " ", "\t", " \t ", "\t\t", "   "}), 1, 3).Draw(rt, "trail")
	c.Chain = rapid.SliceOfN(rapid.SampledFrom([]string{"nexus", "nexus+t", "treenexus", "phyloxml"}), 1, 3).Draw(rt, "chain")
	c.BufSz = rapid.SampledFrom([]int{16, 17, 64, 4096, 65536}).Draw(rt, "bufsz")
	c.Chunks = rapid.SliceOfN(rapid.SampledFrom([]int{0, 1, 2, 3, 7, 16, 64, 4096}), 1, 4).Draw(rt, "chunks")
	c.Sched = genSched(rt)
	return c
}

// canonTree is the reference-model view compared across formats: shape with child order, names, lengths, supports.
func canonTree(text string) string {
	m, err := ParseRef(text)
	if err != nil {
		return "UNPARSABLE(" + err.Error() + ") " + text
	}
	var rec func(n *RNode) string
	rec = func(n *RNode) string {
		s := ""
		if !n.IsTip() {
			var parts []string
			for _, c := range n.Children {
				parts = append(parts, rec(c))
			}
			s = "(" + strings.Join(parts, ",") + ")"
		}
		lab := n.Label
		if !n.IsTip() {
			if v, err := strconv.ParseFloat(lab, 64); err == nil {
				lab = "support=" + strconv.FormatFloat(v, 'g', -1, 64)
			}
		}
		s += lab
		if n.HasLen {
			s += ":" + strconv.FormatFloat(n.Len, 'g', -1, 64)
		}
		return s
	}
	return rec(m)
}

type mrec struct {
	id   int
	text string
	err  bool
}

// readMulti runs the real multi-tree reader goroutine under the scheduler over a simulated stream.
func readMulti(t *testing.T, o *Outcome, what, text string, format int, c *C13Case) (recs []mrec, ok bool) {
	sr := &SimReader{Data: []byte(text), Limit: len(text), Chunks: c.Chunks, EndErr: io.EOF}
	br := bufio.NewReaderSize(sr, c.BufSz)
	inner := &Outcome{}
	res := sched.Run(t, c.Sched.withTicks(400000, 4000*int64(len(text)+16)), func() {
		guard(inner, what, func() {
			for rec := range utils.ReadMultiTrees(br, format) {
				verifhook.Yield("harness.collect", "recv")
				r := mrec{id: rec.Id, err: rec.Err != nil}
				if rec.Err == nil {
					if rec.Tree == nil {
						inner.Fail("nil-tree-without-error:"+what, "%s: record %d has neither a tree nor an error", what, rec.Id)
						continue
					}
					r.text = rec.Tree.Newick()
				}
				recs = append(recs, r)
			}
		})
	})
	o.Steps += int64(res.Steps)
	o.Viols = append(o.Viols, inner.Viols...)
	ok = len(inner.Viols) == 0
	for _, p := range res.Panics {
		o.Fail("panic:"+normPanic(p.Value, p.Stack), "%s: panic in goroutine %s: %s\n%s", what, p.G, p.Value, trimStack(p.Stack))
		ok = false
	}
	if res.Deadlock && len(res.Panics) == 0 {
		o.Fail("deadlock:"+what, "%s: reader goroutine and consumer both blocked: %v", what, res.Blocked)
		ok = false
	}
	if res.Budget || res.TickBudget || res.Exit != nil {
		o.Fail("no-termination:"+what, "%s: budget=%v ticks=%v exit=%v", what, res.Budget, res.TickBudget, res.Exit)
		ok = false
	}
	if sr.ZeroReads > 0 {
		o.Fault("zero-read")
	}
	return
}

func readSingle(o *Outcome, what, text string, format int, c *C13Case) (out string, failed bool) {
	sr := &SimReader{Data: []byte(text), Limit: len(text), Chunks: c.Chunks, EndErr: io.EOF}
	br := bufio.NewReaderSize(sr, c.BufSz)
	guard(o, what, func() {
		tr, err := utils.ReadTreeReader(br, format)
		if err != nil || tr == nil {
			failed = true
			return
		}
		out = tr.Newick()
	})
	return
}

func treeChan(texts []string) <-chan tree.Trees {
	ch := make(chan tree.Trees, len(texts))
	for i, s := range texts {
		ch <- tree.Trees{Tree: mustParse(s), Id: i}
	}
	close(ch)
	return ch
}

// nextstrainDoc writes the model as Nextstrain v2 JSON (divergence = distance from the root).
func nextstrainDoc(text string) string {
	m, err := ParseRef(text)
	if err != nil {
		panic("harness: " + err.Error())
	}
	var b strings.Builder
	var rec func(n *RNode, div float64, k *int)
	rec = func(n *RNode, div float64, k *int) {
		name := n.Label
		if !n.IsTip() {
			name = fmt.Sprintf("NODE_%d", *k)
			*k++
		}
		fmt.Fprintf(&b, `{"name":%q,"node_attrs":{"div":%s}`, name, strconv.FormatFloat(div, 'f', -1, 64))
		if !n.IsTip() {
			b.WriteString(`,"children":[`)
			for i, c := range n.Children {
				if i > 0 {
					b.WriteByte(',')
				}
				rec(c, div+c.Len, k)
			}
			b.WriteString("]")
		}
		b.WriteString("}")
	}
	b.WriteString(`{"version":"v2","meta":{},"tree":`)
	k := 0
	rec(m, 0, &k)
	b.WriteString("}")
	return b.String()
}

func execC13(t *testing.T, cc any, o *Outcome) {
	c := cc.(*C13Case)
	n := len(c.Trees)
	var want []string
	h := fnv.New64a()
	for _, s := range c.Trees {
		want = append(want, canonTree(s))
		h.Write([]byte(s))
		if m, _ := ParseRef(s); m != nil && len(m.Children) == 2 {
			o.Probe("rooted-tree")
		}
	}
	fmt.Fprint(h, c.Chain)
	o.Key = fmt.Sprintf("%016x", h.Sum64())
	o.Nontrivial = n >= 2 || len(c.Chain) >= 2
	for _, nm := range mustModel(c.Trees[0]).Tips() {
		if _, err := strconv.Atoi(nm); err == nil {
			o.Probe("numeric-names")
			break
		}
	}
	if len(c.Chunks) > 1 || c.Chunks[0] < 4096 {
		o.Fault("chunk")
	}
	if c.BufSz < 4096 {
		o.Fault("bufsz")
	}

	// ---- the Newick multi-tree stream
	eol := "\n"
	if c.CRLF {
		eol = "\r\n"
	}
	var sb strings.Builder
	blank := map[int]bool{}
	for _, b := range c.Blank {
		blank[b] = true
	}
	if blank[0] {
		sb.WriteString(" \t" + eol)
	}
	pos := 0
	for i := 0; i <= n; i++ {
		if i == c.Bad {
			bad := c.Trees[i%n]
			bad = strings.Replace(bad, ")", "", 1) // unbalanced
			sb.WriteString(bad + eol)
			o.Fault("malformed@j")
			if i == 0 {
				o.Probe("malformed-at-0")
			} else if i < n {
				o.Probe("malformed-in-middle")
			}
		}
		if i < n {
			trail := ""
			if len(c.Trail) > 0 {
				trail = c.Trail[i%len(c.Trail)]
			}
			if trail != "" {
				o.Probe("blanks-after-semicolon")
			}
			sb.WriteString(wrapNewick(c.Trees[i], c.Wrap, eol) + trail + eol)
			if len(c.Wrap) > 0 {
				o.Probe("tree-wrapped-over-lines")
			}
			pos++
			if blank[pos] {
				sb.WriteString("  " + eol)
			}
		}
	}
	stream := sb.String()
	if longestLine(stream) > c.BufSz {
		o.Probe("isprefix-path")
	}
	recs, ok := readMulti(t, o, "multi/newick", stream, utils.FORMAT_NEWICK, c)
	ctx := fmt.Sprintf("bufsz=%d chunks=%v stream=%q", c.BufSz, c.Chunks, stream)
	if ok {
		expectGood := n
		if c.Bad >= 0 {
			expectGood = c.Bad
		}
		for i, r := range recs {
			if r.id != i {
				o.Fail("multi:ids", "newick stream: record %d carries id %d (ids %v)\n%s", i, r.id, ids(recs), ctx)
				break
			}
		}
		good := 0
		for _, r := range recs {
			if r.err {
				break
			}
			good++
		}
		switch {
		case good < expectGood:
			o.Fail("multi:tree-skipped", "newick stream: %d trees delivered before the end/error, %d expected (records: %s)\n%s", good, expectGood, showRecs(recs), ctx)
		case good > expectGood:
			o.Fail("multi:malformed-accepted", "newick stream: a tree is delivered for the malformed text at position %d (records: %s)\n%s", c.Bad, showRecs(recs), ctx)
		case c.Bad >= 0 && len(recs) != good+1:
			o.Fail("multi:after-error", "newick stream: %d records after %d good trees, want exactly one error record (records: %s)\n%s", len(recs)-good, good, showRecs(recs), ctx)
		case c.Bad < 0 && len(recs) != n:
			o.Fail("multi:extra-record", "newick stream: %d records for %d trees (records: %s)\n%s", len(recs), n, showRecs(recs), ctx)
		}
		for i := 0; i < good && i < expectGood; i++ {
			if g := canonTree(recs[i].text); g != want[i] {
				o.Fail("roundtrip:newick", "newick stream: tree %d differs from its source\n  want %s\n  got  %s\n%s", i, want[i], g, ctx)
			}
		}
		// single vs multi
		single, failed := readSingle(o, "single/newick", stream, utils.FORMAT_NEWICK, c)
		if len(recs) > 0 {
			if recs[0].err != failed || (!failed && single != recs[0].text) {
				o.Fail("single-vs-multi:newick", "first tree by the single reader: failed=%v %s\nfirst record of the multi reader: error=%v %s\n%s", failed, single, recs[0].err, recs[0].text, ctx)
			}
		}
	}

	// ---- conversion chain
	cur := append([]string(nil), c.Trees...)
	for hop, kind := range c.Chain {
		o.Probe("hop:" + kind)
		what := fmt.Sprintf("hop %d (%s)", hop, kind)
		var doc string
		var format int
		expect := want
		okw := guard(o, "write/"+kind, func() {
			var err error
			switch kind {
			case "nexus":
				doc, err = nexus.WriteNexus(treeChan(cur), false)
				format = utils.FORMAT_NEXUS
			case "nexus+t":
				doc, err = nexus.WriteNexus(treeChan(cur), true)
				format = utils.FORMAT_NEXUS
			case "treenexus":
				doc = mustParse(cur[0]).Nexus()
				format = utils.FORMAT_NEXUS
				expect = want[:1]
			case "phyloxml":
				doc, err = phyloxml.WritePhyloXML(treeChan(cur))
				format = utils.FORMAT_PHYLOXML
			}
			if err != nil {
				o.Fail("write-error:"+kind, "%s: writer fails on well-formed trees: %v\n  trees %v", what, err, cur)
				doc = ""
			}
		})
		if !okw || doc == "" {
			return
		}
		fname := map[int]string{utils.FORMAT_NEXUS: "nexus", utils.FORMAT_PHYLOXML: "phyloxml"}[format]
		back, ok := readMulti(t, o, "multi/"+fname, doc, format, c)
		hctx := fmt.Sprintf("%s bufsz=%d chunks=%v\n  source %v\n  document %q", what, c.BufSz, c.Chunks, c.Trees, doc)
		// violations of a translate-table hop on a list that contains a tree written from one of its tips are a class of their own
		// (recorded finding: the translated name of the root tip is a number after the last ')', which is read as a support)
		vk := kind
		if kind == "nexus+t" && anyTipRooted(cur) {
			vk = kind + ":tip-rooted"
			o.Probe("translate-table-with-a-tip-rooted-tree")
		}
		if !ok {
			return
		}
		if c.Hetero {
			o.Probe("heterogeneous-taxa")
			anyErr := false
			for _, r := range back {
				anyErr = anyErr || r.err
			}
			if anyErr {
				return // "or an error is reported": a list on differing taxa may be refused by a format that declares its taxa
			}
		}
		if len(back) != len(expect) {
			o.Fail("roundtrip-count:"+vk, "%d records read back for %d trees written (records: %s)\n%s", len(back), len(expect), showRecs(back), hctx)
			return
		}
		var next []string
		for i, r := range back {
			if r.id != i {
				o.Fail("multi:ids:"+fname, "record %d carries id %d\n%s", i, r.id, hctx)
			}
			if r.err {
				o.Fail("roundtrip-error:"+vk, "tree %d cannot be read back\n%s", i, hctx)
				return
			}
			if g := canonTree(r.text); g != expect[i] {
				o.Fail("roundtrip:"+vk, "tree %d differs from its source after %v\n  want %s\n  got  %s\n%s", i, c.Chain[:hop+1], expect[i], g, hctx)
			}
			next = append(next, r.text)
		}
		if c.BufSz == 16 && kind != "treenexus" && len(o.Viols) == 0 && !c.Hetero {
			checkReformatCLI(t, o, c, kind, vk, fname, cur, expect, doc)
		}
		single, failed := readSingle(o, "single/"+fname, doc, format, c)
		if failed || single != back[0].text {
			o.Fail("single-vs-multi:"+fname, "first tree by the single reader: failed=%v %s\nfirst record of the multi reader: %s\n%s", failed, single, back[0].text, hctx)
		}
		if kind == "treenexus" {
			next = append(next, cur[1:]...) // Tree.Nexus converts one tree: the others go on unchanged
		}
		cur = next
	}

	// ---- a PhyloXML document of the first tree as another program writes it, rooted attribute independent of the shape
	for _, rooted := range []string{"true", "false"} {
		doc := foreignPhyloXML(c.Trees[0], rooted)
		back, ok := readMulti(t, o, "multi/phyloxml-foreign", doc, utils.FORMAT_PHYLOXML, c)
		if !ok {
			continue
		}
		o.Probe("single-vs-multi:phyloxml-foreign")
		single, failed := readSingle(o, "single/phyloxml-foreign", doc, utils.FORMAT_PHYLOXML, c)
		if len(back) != 1 || back[0].id != 0 {
			o.Fail("multi:ids:phyloxml-foreign", "records %s for one phylogeny\n  document %s", showRecs(back), doc)
		} else if back[0].err != failed || (!failed && single != back[0].text) {
			o.Fail("single-vs-multi:phyloxml-foreign", "single reader: failed=%v %s\nmulti reader: error=%v %s\n  document %s", failed, single, back[0].err, back[0].text, doc)
		} else if !failed {
			if a, b := shapeOnly(single), shapeOnly(c.Trees[0]); a != b {
				o.Fail("roundtrip:phyloxml-foreign", "tree read differs in shape or tip names from the document\n  want %s\n  got  %s\n  document %s", b, a, doc)
			}
		}
	}

	// ---- fourth input format: single vs multi on a Nextstrain document of the first tree
	if hasAllLengths(c.Trees[0]) {
		doc := nextstrainDoc(c.Trees[0])
		back, ok := readMulti(t, o, "multi/nextstrain", doc, utils.FORMAT_NEXTSTRAIN, c)
		if ok {
			o.Probe("single-vs-multi:nextstrain")
			single, failed := readSingle(o, "single/nextstrain", doc, utils.FORMAT_NEXTSTRAIN, c)
			if len(back) != 1 || back[0].id != 0 {
				o.Fail("multi:ids:nextstrain", "nextstrain: records %s for one tree\n  document %s", showRecs(back), doc)
			} else if back[0].err != failed || (!failed && single != back[0].text) {
				o.Fail("single-vs-multi:nextstrain", "single reader: failed=%v %s\nmulti reader: error=%v %s\n  document %s", failed, single, back[0].err, back[0].text, doc)
			} else if !failed {
				// shape and tip names must be those of the source (inner names are generated, lengths are divergence differences)
				if a, b := shapeOnly(single), shapeOnly(c.Trees[0]); a != b {
					o.Fail("roundtrip:nextstrain", "nextstrain: tree read differs in shape or tip names\n  want %s\n  got  %s", b, a)
				}
			}
		}
	}
}

// foreignPhyloXML writes the model as another program would: one line, the rooted attribute chosen by the caller whatever the shape.
func foreignPhyloXML(text string, rooted string) string {
	m := mustModel(text)
	var b strings.Builder
	var rec func(n *RNode, top bool)
	rec = func(n *RNode, top bool) {
		b.WriteString("<clade>")
		if n.IsTip() && n.Label != "" {
			b.WriteString("<name>")
			xml.EscapeText(&b, []byte(n.Label))
			b.WriteString("</name>")
		}
		if !top && n.HasLen {
			b.WriteString("<branch_length>" + strconv.FormatFloat(n.Len, 'f', -1, 64) + "</branch_length>")
		}
		for _, c := range n.Children {
			rec(c, false)
		}
		b.WriteString("</clade>")
	}
	b.WriteString(`<?xml version="1.0" encoding="UTF-8"?><phyloxml xmlns="http://www.phyloxml.org"><phylogeny rooted="` + rooted + `">`)
	rec(m, true)
	b.WriteString("</phylogeny></phyloxml>")
	return b.String()
}

func mustModel(s string) *RNode {
	m, err := ParseRef(s)
	if err != nil {
		panic("harness: " + err.Error())
	}
	return m
}

func hasAllLengths(s string) bool {
	for _, x := range mustModel(s).all() {
		if x.Parent != nil && !x.HasLen {
			return false
		}
	}
	return true
}

func shapeOnly(text string) string {
	m, err := ParseRef(text)
	if err != nil {
		return "UNPARSABLE " + text
	}
	for _, x := range m.all() {
		if !x.IsTip() {
			x.Label = ""
		}
	}
	return m.Shape(false)
}

func ids(recs []mrec) []int {
	var out []int
	for _, r := range recs {
		out = append(out, r.id)
	}
	return out
}

func showRecs(recs []mrec) string {
	var s []string
	for _, r := range recs {
		if r.err {
			s = append(s, fmt.Sprintf("#%d:ERROR", r.id))
		} else {
			s = append(s, fmt.Sprintf("#%d:%s", r.id, r.text))
		}
	}
	return "[" + strings.Join(s, " ") + "]"
}

// checkReformatCLI performs the same hop through the commands: `gotree reformat nexus|phyloxml` writes the document,
// `gotree reformat newick -f <format>` reads a document back; both must preserve every tree.
// anyTipRooted: some tree of the list has a root with exactly one child and a name that is not a number.
func anyTipRooted(trees []string) bool {
	for _, t := range trees {
		if m, err := ParseRef(t); err == nil && len(m.Children) == 1 && m.Label != "" && !m.Children[0].IsTip() {
			if _, nerr := strconv.ParseFloat(m.Label, 64); nerr != nil {
				return true
			}
		}
	}
	return false
}

func checkReformatCLI(t *testing.T, o *Outcome, c *C13Case, kind, vk, fname string, cur, expect []string, libdoc string) {
	rk := fname // class suffix of the read-back checks
	if vk != kind {
		rk = fname + ":tip-rooted+t"
	}
	o.Probe("cli:reformat:" + kind)
	files := map[string]string{"in.nw": strings.Join(cur, "\n") + "\n", "lib.doc": libdoc}
	args := []string{"reformat", fname, "-i", "@in.nw", "--seed", "1", "-o", "@OUT"}
	if kind == "nexus+t" {
		args = append(args, "--translate")
	}
	w := runCLI(t, files, args, false, 1, c.Sched)
	ctx := fmt.Sprintf("gotree %s\n  input %v", strings.Join(args, " "), cur)
	if w.status != "ok" {
		o.Fail("cli:reformat:write-failed:"+kind, "the command fails on well-formed trees: %s\n%s", w.status, ctx)
		return
	}
	format := utils.FORMAT_NEXUS
	if fname == "phyloxml" {
		format = utils.FORMAT_PHYLOXML
	}
	back, ok := readMulti(t, o, "multi/"+fname+"(cli)", w.outs["OUT"], format, c)
	if !ok {
		return
	}
	if len(back) != len(expect) {
		o.Fail("cli:reformat:roundtrip-count:"+vk, "%d trees read back from the document the command wrote for %d trees\n%s\n  document %q", len(back), len(expect), ctx, w.outs["OUT"])
		return
	}
	for i, r := range back {
		if r.err || canonTree(r.text) != expect[i] {
			o.Fail("cli:reformat:roundtrip:"+vk, "tree %d differs from its source after the command\n  want %s\n  got  %s (error %v)\n%s\n  document %q", i, expect[i], canonTree(r.text), r.err, ctx, w.outs["OUT"])
			return
		}
	}
	// and back to Newick through the command, from the document the library wrote
	rargs := []string{"reformat", "newick", "-i", "@lib.doc", "-f", fname, "--seed", "1", "-o", "@OUT"}
	rd := runCLI(t, files, rargs, false, 1, c.Sched)
	if rd.status != "ok" {
		o.Fail("cli:reformat:read-failed:"+rk, "gotree %s fails: %s\n  document %q", strings.Join(rargs, " "), rd.status, libdoc)
		return
	}
	var lines []string
	for _, ln := range strings.Split(rd.outs["OUT"], "\n") {
		if strings.TrimSpace(ln) != "" {
			lines = append(lines, ln)
		}
	}
	if len(lines) != len(expect) {
		o.Fail("cli:reformat:read-count:"+rk, "gotree %s prints %d trees for a document of %d\n  document %q\n  output %q", strings.Join(rargs, " "), len(lines), len(expect), libdoc, rd.outs["OUT"])
		return
	}
	for i, ln := range lines {
		if canonTree(ln) != expect[i] {
			o.Fail("cli:reformat:read:"+rk, "gotree %s: tree %d differs from its source\n  want %s\n  got  %s\n  document %q", strings.Join(rargs, " "), i, expect[i], canonTree(ln), libdoc)
			return
		}
	}
}

// wrapNewick breaks a Newick text over several lines at token boundaries only (after '(' ',' ')' and before ',' ')' ':'),
// every steps[k]-th boundary: the text stays the same tree for every reader.
func wrapNewick(text string, steps []int, eol string) string {
	if len(steps) == 0 {
		return text
	}
	var b strings.Builder
	count, k := 0, 0
	for i := 0; i < len(text); i++ {
		ch := text[i]
		boundaryBefore := ch == ',' || ch == ')' || ch == ':'
		if boundaryBefore && i > 0 {
			count++
			if count >= steps[k%len(steps)] {
				b.WriteString(eol)
				count = 0
				k++
			}
		}
		b.WriteByte(ch)
		if (ch == '(' || ch == ',' || ch == ')') && i+1 < len(text) && text[i+1] != ';' {
			count++
			if count >= steps[k%len(steps)] {
				b.WriteString(eol)
				count = 0
				k++
			}
		}
	}
	return b.String()
}
