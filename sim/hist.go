package sim

// Engine histsim: seeded operation histories on a live, long-lived tree object. A history is explicit
// (operation names + integer arguments interpreted against the current state), so it replays and shrinks.

import (
	"fmt"
	"math/rand"
	"sort"
	"strconv"
	"strings"

	"github.com/evolbioinfo/gotree/tree"
	"pgregory.net/rapid"
	"sim/sched"
	"verifhook"
)

// HOp is one step of a history. A and B select among the candidates of the current state (modulo their
// number); Seed feeds a local generator for tip subsets and is given to the product's global PRNG seam
// (rand.Seed) before the step, so randomised operations replay.
type HOp struct {
	Op   string `json:"op"`
	A    int    `json:"a"`
	B    int    `json:"b"`
	Seed int64  `json:"seed"`
}

type HistCase struct {
	Start string `json:"start"`
	Ops   []HOp  `json:"ops"`
	Who   []int  `json:"who,omitempty"`  // C15: which party each step is applied to
	Copy  string `json:"copy,omitempty"` // C15: how the copy is made
	CopyN int    `json:"copyn,omitempty"`
	Index bool   `json:"index,omitempty"`
}

var histOps = []string{"reroot", "rerootfirst", "unroot", "midpoint", "outgroup", "prune", "prunekeep", "collapselen", "collapsesup", "collapsedepth",
	"removeedges", "collapseclade", "resolve", "rotate", "sort", "removesingle", "clone", "subtree", "nniapply", "nniapplyundo", "insertidentical", "graft", "merge",
	"rename", "renameauto", "renameregexp", "shuffle", "reinit", "clearlen", "clearsup", "clearcomments", "scale", "round", "addcomment", "editcomment", "resolvenamed", "nnihold", "nniundoheld", "nniapplyreorderundo", "nniapplyrerootundo", "insertidentical1", "grafttip"}

// structure-changing operations (for the non-triviality rule)
var structOps = map[string]bool{"reroot": true, "rerootfirst": true, "unroot": true, "midpoint": true, "outgroup": true, "prune": true, "prunekeep": true,
	"collapselen": true, "collapsesup": true, "collapsedepth": true, "removeedges": true, "collapseclade": true, "resolve": true, "rotate": true, "sort": true,
	"removesingle": true, "subtree": true, "resolvenamed": true, "nniapply": true, "nniapplyreorderundo": true, "nniapplyrerootundo": true, "insertidentical": true, "insertidentical1": true, "graft": true, "grafttip": true, "merge": true, "shuffle": true}

// bigTreeText: a tree with thousands of tips, built by a local generator from a drawn seed (one rapid draw instead of tens of
// thousands). Sizes sit just above round numbers, where code paths meant for "large" inputs begin.
func bigTreeText(seed int64, n int, rooted bool) string {
	r := rand.New(rand.NewSource(seed))
	m := RandomTree(taxa(n, "b"), r, 2+r.Intn(2), true)
	if rooted {
		m = rootAtRandom(m, m.all(), r)
	}
	return m.Newick()
}

func genTreeText(rt *rapid.T, prefix string, minTips, maxTips int, comments bool) string {
	n := drawTaxa(rt, minTips, maxTips)
	rooted := rapid.Bool().Draw(rt, "rooted")
	lens := rapid.IntRange(0, 2).Draw(rt, "lenmode") // 0 none, 1 all, 2 mixed
	maxdeg := rapid.IntRange(2, 5).Draw(rt, "maxdeg")
	if rapid.IntRange(0, 9).Draw(rt, "bigpolytomy") == 0 {
		maxdeg = 9 // a node with many more neighbours than its parent
	}
	var subs []string
	for i := 0; i < n; i++ {
		subs = append(subs, prefix+strconv.Itoa(i))
	}
	ncom := 0
	negUsed := false
	deco := func(s string, inner bool) string {
		if inner && rapid.IntRange(0, 2).Draw(rt, "sup") == 0 {
			s += strconv.FormatFloat(float64(rapid.IntRange(0, 8).Draw(rt, "supv"))/8, 'f', -1, 64)
			if rapid.IntRange(0, 3).Draw(rt, "pval") == 0 {
				s += "/" + strconv.FormatFloat(float64(rapid.IntRange(0, 8).Draw(rt, "pvalv"))/16, 'f', -1, 64) // support/p-value
			}
		}
		if comments && rapid.IntRange(0, 3).Draw(rt, "ncomment") == 0 {
			ncom++
			s += "[n" + strconv.Itoa(ncom) + "]"
		}
		if lens == 1 || (lens == 2 && rapid.Bool().Draw(rt, "haslen")) {
			l := float64(rapid.IntRange(0, 32).Draw(rt, "len")) / 16
			switch rapid.IntRange(0, 11).Draw(rt, "lenkind") {
			case 0:
				// negative lengths are legal (distance methods produce them); one per tree and off the 1/16 grid, so
				// that no sum of lengths is exactly -1, the value gotree keeps for "no length"
				if !negUsed {
					negUsed = true
					l = -l - 1.0/64
				}
			case 1:
				l = l / 1048576 // tiny, still dyadic
			}
			s += ":" + strconv.FormatFloat(l, 'f', -1, 64)
			if comments && rapid.IntRange(0, 3).Draw(rt, "bcomment") == 0 {
				ncom++
				s += "[b" + strconv.Itoa(ncom) + "]"
			}
		}
		return s
	}
	rootdeg := 2
	if !rooted {
		rootdeg = rapid.IntRange(3, 5).Draw(rt, "rootdeg")
	}
	if rootdeg > n {
		rootdeg = n
	}
	for i := range subs {
		subs[i] = deco(subs[i], false)
	}
	for len(subs) > rootdeg {
		k := rapid.IntRange(2, maxdeg).Draw(rt, "k")
		if len(subs)-k+1 < rootdeg {
			k = len(subs) - rootdeg + 1
		}
		if k < 2 {
			break
		}
		var parts []string
		for j := 0; j < k; j++ {
			i := rapid.IntRange(0, len(subs)-1).Draw(rt, "pick")
			parts = append(parts, subs[i])
			subs = append(subs[:i], subs[i+1:]...)
		}
		grp := "(" + strings.Join(parts, ",") + ")"
		switch rapid.IntRange(0, 15).Draw(rt, "special") {
		case 0:
			// an inner node carrying the name of a tip (legal Newick)
			grp = deco(grp+prefix+strconv.Itoa(rapid.IntRange(0, n-1).Draw(rt, "tipname")), false)
		case 1:
			// a single-child inner node above the group
			grp = "(" + deco(grp, true) + ")" + deco("", false)
		case 2:
			// a single-child inner node above one tip of the group
			parts[0] = "(" + parts[0] + ")" + deco("", false)
			grp = deco("("+strings.Join(parts, ",")+")", true)
		default:
			grp = deco(grp, true)
		}
		subs = append(subs, grp)
	}
	root := "(" + strings.Join(subs, ",") + ")"
	if comments && rapid.Bool().Draw(rt, "rootcomment") {
		root += "[rootc]"
	}
	return root + ";"
}

func genOps(rt *rapid.T, names []string, min, max int) []HOp {
	n := rapid.IntRange(min, max).Draw(rt, "nsteps")
	ops := make([]HOp, 0, n)
	for i := 0; i < n; i++ {
		ops = append(ops, HOp{
			Op:   rapid.SampledFrom(names).Draw(rt, "op"),
			A:    rapid.IntRange(0, 63).Draw(rt, "a"),
			B:    rapid.IntRange(0, 63).Draw(rt, "b"),
			Seed: int64(rapid.IntRange(0, 1<<20).Draw(rt, "opseed")),
		})
	}
	return ops
}

type histState struct {
	t      *tree.Tree
	text   string // last good text
	serial int
	// what the last local edit was asked to do (C15)
	added, removed []string
	groups         [][]string
	held           tree.Rearrangement // an applied NNI kept by the caller, undone by a later step
	heldSteps      int
	freshIndex     bool // the indexes of this tree are known to be current (C15: copy of an indexed tree, not edited yet)
	ranFresh       bool // the last step relied on the tip index as it was (no re-index in front of it)
	targetExisted  bool // the tip the last step addressed by name was a tip of the tree (found by traversal)
}

func sortedTipNames(t *tree.Tree) []string {
	var out []string
	for _, n := range t.Tips() {
		out = append(out, n.Name())
	}
	sort.Strings(out)
	return out
}

func pickSubset(r *rand.Rand, names []string, min, max int) []string {
	if max > len(names) {
		max = len(names)
	}
	if min > max {
		min = max
	}
	if max <= 0 {
		return nil
	}
	k := min
	if max > min {
		k += r.Intn(max - min + 1)
	}
	perm := r.Perm(len(names))
	out := make([]string, 0, k)
	for _, i := range perm[:k] {
		out = append(out, names[i])
	}
	return out
}

func hasSingleInner(t *tree.Tree) bool {
	for _, n := range t.Nodes() {
		if n != t.Root() && n.Nneigh() == 2 {
			return true
		}
	}
	return false
}

func innerNodesOf(t *tree.Tree, minDeg int, withRoot bool) []*tree.Node {
	var out []*tree.Node
	for _, n := range t.Nodes() {
		if n.Nneigh() >= minDeg && (withRoot || n != t.Root()) {
			out = append(out, n)
		}
	}
	return out
}

const opSkip = "skip"

// steps after which a rearrangement object obtained earlier still refers to the same nodes and branches in the same
// places (child order may change, attributes may change)
var keepsTopology = map[string]bool{"rotate": true, "sort": true, "scale": true, "round": true, "clearlen": true, "clearsup": true, "clearcomments": true,
	"addcomment": true, "editcomment": true, "reinit": true, "nniundoheld": true, "nnihold": true,
	// moving the root keeps every node and branch too (only orientations change)
	"reroot": true, "rerootfirst": true}

// applyOp interprets one step against the state. desc == opSkip: not applicable in this state.
func applyOp(st *histState, op HOp) (desc string, err error) {
	t := st.t
	st.added, st.removed, st.groups = nil, nil, nil
	fresh := st.freshIndex
	st.freshIndex = false
	st.ranFresh, st.targetExisted = false, false
	// a held NNI stays valid only across steps that keep every node and branch in place
	if st.held != nil && !keepsTopology[op.Op] {
		st.held = nil
	}
	r := rand.New(rand.NewSource(op.Seed))
	rand.Seed(op.Seed) // the product's PRNG seam
	tips := sortedTipNames(t)
	switch op.Op {
	case "reroot":
		inner := innerNodesOf(t, 2, true)
		if len(inner) == 0 {
			return opSkip, nil
		}
		i := op.A % len(inner)
		return fmt.Sprintf("Reroot(inner#%d)", i), t.Reroot(inner[i])
	case "rerootfirst":
		return "RerootFirst", t.RerootFirst()
	case "unroot":
		t.UnRoot()
		return "UnRoot", nil
	case "midpoint":
		return "RerootMidPoint", t.RerootMidPoint()
	case "outgroup":
		if len(tips) < 3 {
			return opSkip, nil
		}
		og := pickSubset(r, tips, 1, len(tips)-1)
		if op.B%3 == 0 { // a clade of the current tree as outgroup
			if in := innerNodesOf(t, 3, false); len(in) > 0 {
				var cl []string
				for _, x := range t.SubTree(in[op.A%len(in)]).Tips() {
					cl = append(cl, x.Name())
				}
				if len(cl) < len(tips) {
					og = cl
				}
			}
		}
		if op.B%3 == 1 { // everything but one clade
			if in := innerNodesOf(t, 3, false); len(in) > 0 {
				inClade := map[string]bool{}
				for _, x := range t.SubTree(in[op.A%len(in)]).Tips() {
					inClade[x.Name()] = true
				}
				var rest []string
				for _, n := range tips {
					if !inClade[n] {
						rest = append(rest, n)
					}
				}
				if len(rest) > 0 && len(rest) < len(tips) {
					og = rest
				}
			}
		}
		rem, strict := op.A%2 == 1, op.A%4 >= 2
		if rem && len(tips)-len(og) < 3 {
			rem = false
		}
		return fmt.Sprintf("RerootOutGroup(remove=%v,strict=%v,%v)", rem, strict, og), t.RerootOutGroup(rem, strict, og...)
	case "prune", "prunekeep":
		if hasSingleInner(t) || len(tips) < 4 {
			return opSkip, nil
		}
		rm := pickSubset(r, tips, 1, len(tips)-2) // may leave two tips
		if op.B%4 == 0 {
			rm = append(rm, "ABSENT_NAME")
		}
		if op.Op == "prunekeep" {
			keep := pickSubset(r, tips, 3, len(tips))
			return fmt.Sprintf("RemoveTips(revert,%v)", keep), t.RemoveTips(true, keep...)
		}
		return fmt.Sprintf("RemoveTips(%v)", rm), t.RemoveTips(false, rm...)
	case "collapselen":
		thr := float64(op.A%33) / 16
		t.CollapseShortBranches(thr, op.B%4 == 1, op.B%8 >= 6)
		return fmt.Sprintf("CollapseShortBranches(%v,%v,%v)", thr, op.B%4 == 1, op.B%8 >= 6), nil
	case "collapsesup":
		thr := float64(op.A%10) / 8
		t.CollapseLowSupport(thr, op.B%4 == 1)
		return fmt.Sprintf("CollapseLowSupport(%v,%v)", thr, op.B%4 == 1), nil
	case "collapsedepth":
		if e := t.ReinitIndexes(); e != nil {
			return "ReinitIndexes", e
		}
		a := 1 + op.A%4
		b := a + op.B%3
		return fmt.Sprintf("CollapseTopoDepth(%d,%d)", a, b), t.CollapseTopoDepth(a, b, false, false)
	case "removeedges":
		in := t.InternalEdges()
		var cand []*tree.Edge
		for _, e := range in {
			if !e.Right().Tip() {
				cand = append(cand, e)
			}
		}
		if len(cand) == 0 {
			return opSkip, nil
		}
		es := []*tree.Edge{cand[op.A%len(cand)]}
		if op.B%3 == 0 && len(cand) > 1 {
			if e2 := cand[op.B%len(cand)]; e2 != es[0] {
				es = append(es, e2)
			}
		}
		t.RemoveEdges(op.B%4 == 1, false, es...)
		return fmt.Sprintf("RemoveEdges(%d inner branches)", len(es)), nil
	case "collapseclade":
		in := innerNodesOf(t, 3, false)
		if len(in) == 0 || len(tips) < 5 {
			return opSkip, nil
		}
		var cl []string
		for _, x := range t.SubTree(in[op.A%len(in)]).Tips() {
			cl = append(cl, x.Name())
		}
		if len(cl) < 2 || len(tips)-len(cl) < 2 {
			return opSkip, nil
		}
		st.serial++
		_, e := t.CollapseClade(true, fmt.Sprintf("CL%d", st.serial), cl...)
		return fmt.Sprintf("CollapseClade(%v)", cl), e
	case "resolve":
		t.Resolve()
		return "Resolve", nil
	case "resolvenamed":
		t.ResolveNamedInternalNodes()
		return "ResolveNamedInternalNodes", nil
	case "rotate":
		t.RotateInternalNodes()
		return "RotateInternalNodes", nil
	case "sort":
		t.SortNeighborsByTips()
		return "SortNeighborsByTips", nil
	case "removesingle":
		t.RemoveSingleNodes()
		return "RemoveSingleNodes", nil
	case "clone":
		st.t = t.Clone()
		return "Clone (continue on the copy)", nil
	case "subtree":
		in := innerNodesOf(t, 3, false)
		if len(in) == 0 {
			return opSkip, nil
		}
		i := op.A % len(in)
		sub := t.SubTree(in[i])
		if len(sub.Tips()) < 3 {
			return opSkip, nil
		}
		st.t = sub
		return fmt.Sprintf("SubTree(inner#%d) (continue on it)", i), nil
	case "nniapply", "nniapplyundo":
		var rs []tree.Rearrangement
		(&tree.NNIRearranger{}).Rearrange(t, func(re tree.Rearrangement) bool { rs = append(rs, re); return true })
		if len(rs) == 0 {
			return opSkip, nil
		}
		i := op.A % len(rs)
		if e := rs[i].Apply(); e != nil {
			return fmt.Sprintf("NNI#%d.Apply", i), e
		}
		if op.Op == "nniapplyundo" {
			return fmt.Sprintf("NNI#%d.Apply;Undo", i), rs[i].Undo()
		}
		return fmt.Sprintf("NNI#%d.Apply", i), nil
	case "nnihold":
		var rs []tree.Rearrangement
		(&tree.NNIRearranger{}).Rearrange(t, func(re tree.Rearrangement) bool { rs = append(rs, re); return true })
		if len(rs) == 0 || st.held != nil {
			return opSkip, nil
		}
		i := op.A % len(rs)
		if e := rs[i].Apply(); e != nil {
			return fmt.Sprintf("NNI#%d.Apply (kept)", i), e
		}
		st.held = rs[i]
		return fmt.Sprintf("NNI#%d.Apply (rearrangement kept for a later Undo)", i), nil
	case "nniapplyreorderundo":
		// Apply, re-order the children (the nodes and branches stay where they are), Undo on the same object
		var rs []tree.Rearrangement
		(&tree.NNIRearranger{}).Rearrange(t, func(re tree.Rearrangement) bool { rs = append(rs, re); return true })
		if len(rs) == 0 {
			return opSkip, nil
		}
		i := op.A % len(rs)
		if e := rs[i].Apply(); e != nil {
			return fmt.Sprintf("NNI#%d.Apply", i), e
		}
		how := "SortNeighborsByTips"
		if op.B%2 == 0 {
			t.SortNeighborsByTips()
		} else {
			how = "RotateInternalNodes"
			t.RotateInternalNodes()
		}
		return fmt.Sprintf("NNI#%d.Apply; %s; Undo", i, how), rs[i].Undo()
	case "nniapplyrerootundo":
		// Apply, move the root to a drawn inner node (every node and branch stays, orientations change), Undo on the same object
		var rs []tree.Rearrangement
		(&tree.NNIRearranger{}).Rearrange(t, func(re tree.Rearrangement) bool { rs = append(rs, re); return true })
		if len(rs) == 0 {
			return opSkip, nil
		}
		i := op.A % len(rs)
		if e := rs[i].Apply(); e != nil {
			return fmt.Sprintf("NNI#%d.Apply", i), e
		}
		inner := innerNodesOf(t, 3, true)
		if len(inner) == 0 {
			return fmt.Sprintf("NNI#%d.Apply; Undo", i), rs[i].Undo()
		}
		j := op.B % len(inner)
		if e := t.Reroot(inner[j]); e != nil {
			return fmt.Sprintf("NNI#%d.Apply; Reroot(inner#%d)", i, j), e
		}
		return fmt.Sprintf("NNI#%d.Apply; Reroot(inner#%d); Undo", i, j), rs[i].Undo()
	case "nniundoheld":
		if st.held == nil {
			return opSkip, nil
		}
		h := st.held
		st.held = nil
		return "Undo of the kept NNI", h.Undo()
	case "insertidentical":
		if !fresh {
			if e := t.ReinitIndexes(); e != nil {
				return "ReinitIndexes", e
			}
		}
		st.ranFresh, st.targetExisted = fresh, true
		old := pickSubset(r, tips, 1, 2)
		var groups [][]string
		for _, o := range old {
			st.serial++
			g := []string{o, fmt.Sprintf("N%d", st.serial)}
			if op.B%2 == 0 {
				st.serial++
				g = append(g, fmt.Sprintf("N%d", st.serial))
			}
			if op.A%3 == 0 { // the existing member need not come first
				g[0], g[len(g)-1] = g[len(g)-1], g[0]
			}
			groups = append(groups, g)
			for _, n := range g {
				if n != o {
					st.added = append(st.added, n)
				}
			}
		}
		if op.B%5 == 3 && len(tips) > len(old) {
			// a group with nothing to insert, in front of the others
			for _, cand := range tips {
				used := false
				for _, o := range old {
					used = used || o == cand
				}
				if !used {
					groups = append([][]string{{cand}}, groups...)
					break
				}
			}
		}
		if op.B%7 == 2 && len(groups) > 0 && len(groups[0]) == 3 && op.A%3 != 0 {
			// a later group anchored on a tip that an earlier group of the same call has just added (not its last one)
			st.serial++
			nn := fmt.Sprintf("N%d", st.serial)
			groups = append(groups, []string{groups[0][1], nn})
			st.added = append(st.added, nn)
		}
		st.groups = groups
		return fmt.Sprintf("InsertIdenticalTips(%v)", groups), t.InsertIdenticalTips(groups)
	case "grafttip":
		// a new tip in the middle of a drawn branch (no re-index before or after: the function does not ask for one)
		es := t.Edges()
		if len(es) == 0 {
			return opSkip, nil
		}
		st.serial++
		n := t.NewNode()
		n.SetName(fmt.Sprintf("T%d", st.serial))
		_, _, _, e := t.GraftTipOnEdge(n, es[op.A%len(es)])
		return fmt.Sprintf("GraftTipOnEdge(T%d, branch#%d)", st.serial, op.A%len(es)), e
	case "insertidentical1":
		// the single-tip function: it keeps the tip index up to date by itself (its documentation says so)
		if !fresh {
			if e := t.ReinitIndexes(); e != nil {
				return "ReinitIndexes", e
			}
		}
		model := tips[op.A%len(tips)]
		var mn *tree.Node
		for _, x := range t.Tips() {
			if x.Name() == model {
				mn = x
			}
		}
		if mn == nil {
			return opSkip, nil
		}
		g := []string{model}
		for k := 0; k <= op.B%2; k++ {
			st.serial++
			name := fmt.Sprintf("N%d", st.serial)
			if _, e := t.InsertIdenticalTip(mn, name); e != nil {
				return fmt.Sprintf("InsertIdenticalTip(%s,%s)", model, name), e
			}
			g = append(g, name)
			st.added = append(st.added, name)
		}
		st.groups = [][]string{g}
		st.freshIndex = true
		return fmt.Sprintf("InsertIdenticalTip x%d (%v)", len(g)-1, g), nil
	case "graft":
		if !fresh { // a tree whose indexes are known to be current is edited as it is
			if e := t.ReinitIndexes(); e != nil {
				return "ReinitIndexes", e
			}
		}
		st.ranFresh = fresh
		st.serial++
		tip := tips[op.A%len(tips)]
		st.targetExisted = true
		g := mustParse(fmt.Sprintf("((G%da:0.5,G%db:0.25):0.125,G%dc:1);", st.serial, st.serial, st.serial))
		switch op.B % 4 {
		case 0:
			g = mustParse(fmt.Sprintf("(G%da:0.5,G%db:0.25,(G%dc:1,G%dd:0.75)0.5:0.5);", st.serial, st.serial, st.serial, st.serial))
		case 1:
			// the tree put in place of the tip has itself a tip of that name
			g = mustParse(fmt.Sprintf("((%s:0.5,G%db:0.25):0.125,G%dc:1);", tip, st.serial, st.serial))
		}
		st.added, st.removed = sortedTipNames(g), []string{tip}
		e := t.GraftTreeOnTip(tip, g)
		st.freshIndex = e == nil // it ends with UpdateTipIndex: the names are current for the next step
		return fmt.Sprintf("GraftTreeOnTip(%s <- %s)", tip, g.Newick()), e
	case "merge":
		if !t.Rooted() {
			return opSkip, nil
		}
		if e := t.ReinitIndexes(); e != nil {
			return "ReinitIndexes", e
		}
		st.serial++
		g := mustParse(fmt.Sprintf("((M%da:0.5,M%db:0.25):0.125,M%dc:1);", st.serial, st.serial, st.serial))
		if e := g.ReinitIndexes(); e != nil {
			return "ReinitIndexes", e
		}
		st.added = sortedTipNames(g)
		return "Merge(" + g.Newick() + ")", t.Merge(g)
	case "rename":
		m := map[string]string{}
		for _, o := range pickSubset(r, tips, 1, 3) {
			st.serial++
			m[o] = fmt.Sprintf("R%d", st.serial)
		}
		return fmt.Sprintf("Rename(%v)", m), t.Rename(m)
	case "renameauto":
		id := st.serial * 100
		st.serial++
		return "RenameAuto", t.RenameAuto(op.A%2 == 0, op.A%4 < 2 || op.A%2 == 1, 8, &id, map[string]string{})
	case "renameregexp":
		st.serial++
		return "RenameRegexp", t.RenameRegexp(op.A%2 == 0, true, "^(.)", fmt.Sprintf("x%d_$1", st.serial), map[string]string{})
	case "shuffle":
		t.ShuffleTips()
		return "ShuffleTips", nil
	case "reinit":
		e := t.ReinitIndexes()
		st.freshIndex = e == nil // the next step may rely on the indexes as they are (no second re-index in front of it)
		return "ReinitIndexes", e
	case "clearlen":
		t.ClearLengths(op.A%2 == 0, op.B%2 == 0)
		return "ClearLengths", nil
	case "clearsup":
		t.ClearSupports()
		return "ClearSupports", nil
	case "clearcomments":
		t.ClearComments()
		return "ClearComments", nil
	case "addcomment":
		nodes := t.Nodes()
		n := nodes[op.A%len(nodes)]
		st.serial++
		n.AddComment(fmt.Sprintf("added%d", st.serial))
		if es := n.Edges(); len(es) > 0 {
			es[op.B%len(es)].AddComment(fmt.Sprintf("addedbr%d", st.serial))
		}
		return fmt.Sprintf("AddComment(node#%d and one of its branches)", op.A%len(nodes)), nil
	case "editcomment":
		// in-place edit through the slices the accessors hand out
		done := false
		st.serial++
		for _, n := range t.Nodes() {
			if cs := n.Comments(); len(cs) > 0 && !done {
				cs[0] = fmt.Sprintf("edited%d", st.serial)
				done = true
			}
		}
		for _, e := range t.Edges() {
			if cs := e.Comments(); len(cs) > 0 {
				cs[0] = fmt.Sprintf("editedbr%d", st.serial)
				done = true
				break
			}
		}
		if !done {
			return opSkip, nil
		}
		return "edit the first node comment and the first branch comment in place", nil
	case "scale":
		f := []float64{0.5, 2, 0.25, 4}[op.A%4]
		t.ScaleLengths(f, op.B%2 == 0, op.B%4 < 2)
		return fmt.Sprintf("ScaleLengths(%v)", f), nil
	case "round":
		t.RoundLengths(1+op.A%3, true, true)
		return "RoundLengths", nil
	}
	return opSkip, nil
}

type opPanic struct{ msg string }

func (p opPanic) Error() string { return p.msg }

// safeApply converts a panic or an os.Exit inside an operation into a failed step (neither a success
// nor a reported error: nothing is asserted about it, it is counted).
func safeApply(st *histState, op HOp) (desc string, err error) {
	ps := &plainSim{}
	verifhook.Sim = ps
	defer func() {
		verifhook.Sim = nil
		if p := recover(); p != nil {
			if s, ok := p.(string); ok && strings.HasPrefix(s, "harness:") {
				panic(p)
			}
			switch v := p.(type) {
			case sched.ExitSentinel:
				desc, err = op.Op, opPanic{fmt.Sprintf("os.Exit(%d) inside the operation", v.Code)}
			default:
				desc, err = op.Op, opPanic{fmt.Sprintf("panic inside the operation: %v", p)}
			}
		}
	}()
	return applyOp(st, op)
}

func safeText(t *tree.Tree) (s string) {
	defer func() {
		if p := recover(); p != nil {
			s = fmt.Sprint("<panic in Newick: ", p, ">")
		}
	}()
	return t.Newick()
}
