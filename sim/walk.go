package sim

// Structural checker over gotree's public traversal API (independent of CheckTree and of the writer).

import (
	"fmt"
	"strconv"
	"strings"

	"github.com/evolbioinfo/gotree/tree"
)

type Walk struct {
	Root  *RNode
	Nodes []*tree.Node
	Edges []*tree.Edge
	Tips  []*tree.Node
}

// CheckStructure returns the first well-formedness defect of t, or "".
func CheckStructure(t *tree.Tree) (w *Walk, defect string) {
	root := t.Root()
	if root == nil {
		return nil, "nil root"
	}
	w = &Walk{}
	seen := map[*tree.Node]bool{}
	seenE := map[*tree.Edge]bool{}
	var rec func(n, parent *tree.Node, pe *tree.Edge, depth int) *RNode
	rec = func(n, parent *tree.Node, pe *tree.Edge, depth int) *RNode {
		if defect != "" {
			return nil
		}
		if seen[n] {
			defect = "cycle: node reached twice: " + n.Name()
			return nil
		}
		if depth > 100000 {
			defect = "depth overflow"
			return nil
		}
		seen[n] = true
		w.Nodes = append(w.Nodes, n)
		neigh, br := n.Neigh(), n.Edges()
		if len(neigh) != len(br) {
			defect = fmt.Sprintf("node %q: %d neighbours but %d branches", n.Name(), len(neigh), len(br))
			return nil
		}
		if len(neigh) == 1 {
			w.Tips = append(w.Tips, n)
		}
		rn := &RNode{Label: n.Name(), Comments: append([]string(nil), n.Comments()...)}
		if pe != nil {
			if pe.Length() != tree.NIL_LENGTH {
				rn.HasLen, rn.Len = true, pe.Length()
			}
			rn.BrComments = append([]string(nil), pe.Comments()...)
		}
		nparent := 0
		for i, m := range neigh {
			e := br[i]
			if m == nil || e == nil {
				defect = fmt.Sprintf("node %q: nil neighbour or branch at %d", n.Name(), i)
				return nil
			}
			if !((e.Left() == n && e.Right() == m) || (e.Left() == m && e.Right() == n)) {
				defect = fmt.Sprintf("node %q: branch %d does not join the node and its neighbour", n.Name(), i)
				return nil
			}
			// symmetric adjacency with the same branch object
			back := -1
			for j, mm := range m.Neigh() {
				if mm == n && j < len(m.Edges()) && m.Edges()[j] == e {
					back = j
				}
			}
			if back < 0 {
				defect = fmt.Sprintf("asymmetric adjacency between %q and %q", n.Name(), m.Name())
				return nil
			}
			if m == parent && e == pe {
				nparent++
				continue
			}
			if m == parent {
				defect = fmt.Sprintf("two different branches between %q and its parent", n.Name())
				return nil
			}
			if e.Left() != n || e.Right() != m {
				defect = fmt.Sprintf("branch between %q and %q points towards the root", n.Name(), m.Name())
				return nil
			}
			if seenE[e] {
				defect = "branch reached twice"
				return nil
			}
			seenE[e] = true
			w.Edges = append(w.Edges, e)
			c := rec(m, n, e, depth+1)
			if defect != "" {
				return nil
			}
			c.Parent = rn
			rn.Children = append(rn.Children, c)
		}
		if parent != nil && nparent != 1 {
			defect = fmt.Sprintf("node %q sees its parent %d times", n.Name(), nparent)
			return nil
		}
		return rn
	}
	w.Root = rec(root, nil, nil, 0)
	if defect != "" {
		return w, defect
	}
	// enumerations agree
	sameNodes := func(a []*tree.Node, b []*tree.Node, what string) string {
		if len(a) != len(b) {
			return fmt.Sprintf("%s: %d vs walk %d", what, len(a), len(b))
		}
		set := map[*tree.Node]int{}
		for _, x := range b {
			set[x]++
		}
		for _, x := range a {
			set[x]--
		}
		for _, v := range set {
			if v != 0 {
				return what + ": different node sets"
			}
		}
		return ""
	}
	if d := sameNodes(t.Nodes(), w.Nodes, "Nodes()"); d != "" {
		return w, d
	}
	if d := sameNodes(t.Tips(), w.Tips, "Tips()"); d != "" {
		return w, d
	}
	edges := t.Edges()
	if len(edges) != len(w.Nodes)-1 {
		return w, fmt.Sprintf("Edges(): %d branches for %d nodes", len(edges), len(w.Nodes))
	}
	eset := map[*tree.Edge]int{}
	for _, e := range w.Edges {
		eset[e]++
	}
	for _, e := range edges {
		eset[e]--
	}
	for _, v := range eset {
		if v != 0 {
			return w, "Edges(): not the branches of the walk"
		}
	}
	in, ex := t.InternalEdges(), t.TipEdges()
	if len(in)+len(ex) != len(edges) {
		return w, fmt.Sprintf("InternalEdges()+TipEdges() = %d+%d, Edges() = %d", len(in), len(ex), len(edges))
	}
	part := map[*tree.Edge]int{}
	for _, e := range in {
		if e.Right().Tip() {
			return w, "InternalEdges() contains a tip branch"
		}
		part[e]++
	}
	for _, e := range ex {
		if !e.Right().Tip() {
			return w, "TipEdges() contains an inner branch"
		}
		part[e]++
	}
	for _, e := range edges {
		if part[e] != 1 {
			return w, "InternalEdges() and TipEdges() do not partition Edges()"
		}
	}
	return w, ""
}

// TextAgrees checks that the Newick text of t describes the walked structure.
func TextAgrees(t *tree.Tree, w *Walk) (ref *RNode, defect string) {
	text := t.Newick()
	ref, err := ParseRef(text)
	if err != nil {
		return nil, "written text is not Newick: " + err.Error() + " in " + text
	}
	var cmp func(a *RNode, b *RNode, ae *tree.Edge, path string) string
	// a: from API walk, b: from text
	idx := 0
	_ = idx
	var rec func(a, b *RNode, path string) string
	rec = func(a, b *RNode, path string) string {
		if len(a.Children) != len(b.Children) {
			return fmt.Sprintf("%s: %d children in the tree, %d in the text", path, len(a.Children), len(b.Children))
		}
		if a.IsTip() || a.Label != "" {
			if strings.TrimSpace(a.Label) != b.Label {
				return fmt.Sprintf("%s: name %q in the tree, %q in the text", path, a.Label, b.Label)
			}
		}
		if a.HasLen != b.HasLen || (a.HasLen && a.Len != b.Len) {
			return fmt.Sprintf("%s: length %v/%v in the tree, %v/%v (%s) in the text", path, a.HasLen, a.Len, b.HasLen, b.Len, b.LenStr)
		}
		for i := range a.Children {
			if d := rec(a.Children[i], b.Children[i], path+"/"+strconv.Itoa(i)); d != "" {
				return d
			}
		}
		return ""
	}
	_ = cmp
	return ref, rec(w.Root, ref, "root")
}
