package sim

// C08 — tree comparison counts are exact set differences of splits.
// Decided as the oracle of the Compare / CompareWeighted pipelines run under the deterministic scheduler,
// plus the pairwise variant Tree.CommonEdges.

import (
	"fmt"
	"hash/fnv"
	"math"
	"sort"
	"strings"
	"testing"

	"github.com/evolbioinfo/gotree/tree"
	"pgregory.net/rapid"
)

func init() {
	Register(&Engine{
		Name: "c08", Prop: "C08",
		Rule: "case = (Compare | CompareWeighted, unrooted reference tree, 1..8 unrooted trees on the same 4..10 (sometimes 60..130, incl. 63/64/65/127/128/129) taxa, named by one of several schemes, related to it by SPR moves, contractions, " +
			"refinements, re-rooting and child rotation, optional taxon-mismatched record (foreign / missing / extra taxon) at a drawn position, tips on/off, " +
			"identical-only shortcut on/off, feed (real reader goroutine or producer), thread count, schedule); executed under the drawn schedule, then swapped " +
			"(one compared tree as reference, the reference as compared tree), then pairwise through Tree.CommonEdges, then on six clones of the already indexed " +
			"reference each edited by exchanging two tip names (history: index, clone, edit, compare). Oracle: set algebra on the split maps of the " +
			"independent reference model. Non-trivial: some compared tree shares ≥ 1 split with the reference and differs by ≥ 1 split; distinct = distinct " +
			"(algorithm, options, reference text, compared texts)",
		Gen: func(rt *rapid.T, tier string) any {
			pc := genPipe(rt, tier, pipeGenOpts{algos: []string{"compare", "compareW"}, faults: true, faultKinds: []string{"foreign", "missing", "extra"},
				minTax: 4, maxTax: 10, maxTrees: 13, refine: true, maxFaults: 3})
			pc.SwapIdx = rapid.IntRange(0, len(pc.Recs)-1).Draw(rt, "swapidx")
			return pc
		},
		New:  func() any { return &PipeCase{} },
		Exec: execC08,
		Real: []string{"tree.Compare", "tree.CompareWeighted", "Tree.CommonEdges", "Edge.FindEdge", "Tree.CompareTipIndexes", "utils.ReadMultiTrees reader goroutine", "hashmap/EdgeIndex", "newick parser"},
		Simulated: []string{"choice of the runnable goroutine at every channel/WaitGroup/lock/shared-variable point", "input byte stream (chunking, buffer size)",
			"position and kind of the taxon-mismatched record"},
		Expected: []string{"strict-contraction-of-ref", "strict-refinement-of-ref", "identical-to-ref", "mismatch-first", "mismatch-last", "swap-run", "common-edges-after-in-place-edit"},
	})
}

func nontrivialSplits(m map[string]*SplitInfo, tips bool) map[string]*SplitInfo {
	out := map[string]*SplitInfo{}
	for k, v := range m {
		if tips || !v.Trivial {
			out[k] = v
		}
	}
	return out
}

type cmpWant struct {
	t1, c, t2  int
	w1, wc, w2 []float64
}

func wantCompare(refm, cm *RNode, tips bool) cmpWant {
	R, C := nontrivialSplits(refm.Splits(), tips), nontrivialSplits(cm.Splits(), tips)
	var w cmpWant
	for _, k := range sortedKeys(R) {
		if c, ok := C[k]; ok {
			w.c++
			w.wc = append(w.wc, R[k].Len-c.Len)
		} else {
			w.t1++
			w.w1 = append(w.w1, R[k].Len)
		}
	}
	for _, k := range sortedKeys(C) {
		if _, ok := R[k]; !ok {
			w.t2++
			w.w2 = append(w.w2, C[k].Len)
		}
	}
	return w
}

func sameMultiset(a, b []float64) bool {
	if len(a) != len(b) {
		return false
	}
	x, y := append([]float64(nil), a...), append([]float64(nil), b...)
	sort.Float64s(x)
	sort.Float64s(y)
	for i := range x {
		if x[i] != y[i] {
			return false
		}
	}
	return true
}

func allZero(xs []float64) bool {
	for _, x := range xs {
		if x != 0 {
			return false
		}
	}
	return true
}

// checkCompareRecord evaluates one record against the model. Returns a relation tag for the probes.
func checkCompareRecord(o *Outcome, pc *PipeCase, what string, refText string, rec Rec, got CmpRec, present bool) string {
	refm, err1 := ParseRef(refText)
	cm, err2 := ParseRef(rec.Text)
	if err1 != nil || err2 != nil {
		panic("harness: model cannot parse generated trees")
	}
	if !present {
		o.Fail("record-lost:"+pc.Algo, "%s: no record delivered for tree %s", what, rec.Text)
		return ""
	}
	if got.Err != "" {
		o.Fail("unexpected-error:"+pc.Algo, "%s: trees on the same taxa compared with an error\n  ref  %s\n  comp %s", what, refText, rec.Text)
		return ""
	}
	w := wantCompare(refm, cm, pc.Tips)
	wantSame := w.t1 == 0 && w.t2 == 0
	ctx := fmt.Sprintf("%s tips=%v identical-only=%v\n  ref  %s\n  comp %s\n  got  %v\n  want ref-only=%d common=%d comp-only=%d same=%v", what, pc.Tips, pc.Identical, refText, rec.Text, got, w.t1, w.c, w.t2, wantSame)
	rel := "other"
	switch {
	case wantSame:
		rel = "identical-to-ref"
	case w.t2 == 0:
		rel = "strict-contraction-of-ref"
	case w.t1 == 0:
		rel = "strict-refinement-of-ref"
	}
	if pc.Algo == "compare" {
		if got.Same != wantSame {
			o.Fail("compare:sametree:"+rel, "identical flag is %v, the split sets say %v\n%s", got.Same, wantSame, ctx)
		}
		if !pc.Identical && (got.T1 != w.t1 || got.C != w.c || got.T2 != w.t2) {
			o.Fail("compare:counts", "counts differ from the set differences of the two split sets\n%s", ctx)
		}
		return rel
	}
	// weighted
	if !pc.Identical {
		if !sameMultiset(got.W1, w.w1) || !sameMultiset(absAll(got.WC), absAll(w.wc)) || !sameMultiset(got.W2, w.w2) {
			o.Fail("compareW:terms", "weighted terms differ from the model\n%s\n  want ref-only lengths %v, differences %v, comp-only lengths %v", ctx, w.w1, w.wc, w.w2)
		}
	}
	if !wantSame && got.Same {
		o.Fail("compareW:sametree:"+rel, "identical flag is true although the split sets differ\n%s", ctx)
	}
	if wantSame && allZero(w.wc) && !got.Same {
		o.Fail("compareW:sametree:"+rel, "identical flag is false although splits and lengths are all equal\n%s", ctx)
	}
	return rel
}

func execC08(t *testing.T, c any, o *Outcome) {
	pc := c.(*PipeCase)
	fpos, fkind := pc.hasFault()
	got := runPipe(t, pc, pc.Cpus, pc.Sched, 2_000_000)
	o.Steps = int64(got.Sched.Steps)
	if !liveness(o, got, fmt.Sprintf("%s (%d threads)", pc.Algo, pc.Cpus)) {
		return
	}
	if got.Err != nil {
		o.Fail("compare:setup-error", "%s: unexpected error from the call itself: %v", pc.Algo, got.Err)
		return
	}
	if fkind != "" {
		o.Fault(fkind)
		if fpos == 0 {
			o.Probe("mismatch-first")
		}
		if fpos == len(pc.Recs)-1 {
			o.Probe("mismatch-last")
		}
	}
	h := fnv.New64a()
	fmt.Fprint(h, pc.Algo, pc.Tips, pc.Identical, pc.Ref)
	for i, rec := range pc.Recs {
		fmt.Fprint(h, rec.Text)
		r, ok := got.Recs[i]
		what := fmt.Sprintf("%s, tree %d of %d, %d threads", pc.Algo, i, len(pc.Recs), pc.Cpus)
		if rec.Fault != "" {
			// rejection clause: trees on different taxa are rejected with an error
			if !ok {
				o.Fail("mismatch-lost:"+pc.Algo+":"+rec.Fault, "%s: no record for the tree with a %s taxon\n  ref  %s\n  comp %s", what, rec.Fault, pc.Ref, rec.Text)
			} else if r.Err == "" {
				o.Fail("mismatch-accepted:"+pc.Algo+":"+rec.Fault, "%s: a tree on different taxa (%s) is compared without an error: %v\n  ref  %s\n  comp %s", what, rec.Fault, r, pc.Ref, rec.Text)
			}
			continue
		}
		rel := checkCompareRecord(o, pc, what, pc.Ref, rec, r, ok)
		if rel != "" {
			o.Probe(rel)
		}
		if rel == "other" || rel == "strict-contraction-of-ref" || rel == "strict-refinement-of-ref" {
			refm, _ := ParseRef(pc.Ref)
			cm, _ := ParseRef(rec.Text)
			if w := wantCompare(refm, cm, false); w.c > 0 {
				o.Nontrivial = true
			}
		}
	}
	o.Key = fmt.Sprintf("%016x", h.Sum64())
	if len(got.Recs) != len(pc.Recs) {
		o.Fail("record-count:"+pc.Algo, "%s: %d records for %d input trees", pc.Algo, len(got.Recs), len(pc.Recs))
	}
	if len(got.Dup) > 0 {
		o.Fail("compare:duplicate-record", "%s: tree ids reported twice: %v", pc.Algo, got.Dup)
	}

	// swap: one compared tree becomes the reference, the reference the compared tree
	var swapRec *Rec
	for k := 0; k < len(pc.Recs); k++ {
		r := &pc.Recs[(pc.SwapIdx+k)%len(pc.Recs)]
		if r.Fault == "" {
			swapRec = r
			break
		}
	}
	if swapRec != nil {
		sw := *pc
		sw.Ref, sw.Recs, sw.Feed = swapRec.Text, []Rec{{Text: pc.Ref}}, "chan"
		sgot := runPipe(t, &sw, 1, seqSched(), 2_000_000)
		o.Steps += int64(sgot.Sched.Steps)
		if liveness(o, sgot, pc.Algo+" (swapped pair)") && sgot.Err == nil {
			o.Probe("swap-run")
			r, ok := sgot.Recs[0]
			checkCompareRecord(o, &sw, pc.Algo+", swapped pair", sw.Ref, sw.Recs[0], r, ok)
		}
		// pairwise variant, both directions
		checkCommonEdges(o, pc.Ref, swapRec.Text, pc.Tips)
		checkCommonEdges(o, swapRec.Text, pc.Ref, pc.Tips)
		checkCommonEdgesAfterEdit(o, pc.Ref, swapRec.Text, pc.Tips)
	}
	// history: the reference is indexed, cloned, the clones are edited (two tip names exchanged) and compared with it
	if !pc.Identical {
		cl := *pc
		cl.Recs, cl.Feed = nil, "chan"
		for k := 0; k < 6; k++ {
			cl.CloneSwaps = append(cl.CloneSwaps, [2]int{pc.SwapIdx + k, pc.SwapIdx + 2*k + 1 + pc.BufSz%3})
		}
		cgot := runPipe(t, &cl, 1, seqSched(), 4_000_000)
		o.Steps += int64(cgot.Sched.Steps)
		if liveness(o, cgot, pc.Algo+" (clones of the reference)") {
			if cgot.Err != nil {
				o.Fail("unexpected-error:"+pc.Algo+":clones", "%s fails on edited clones of the reference: %v\n  ref %s", pc.Algo, cgot.Err, pc.Ref)
			} else {
				o.Probe("clone-edit-compare")
				for i, text := range cgot.CloneTexts {
					r, ok := cgot.Recs[i]
					checkCompareRecord(o, &cl, pc.Algo+", compared tree = clone of the indexed reference with two tip names exchanged", pc.Ref, Rec{Text: text}, r, ok)
					if len(o.Viols) > 0 {
						break
					}
				}
			}
		}
	}
	if pc.Chunk == 1 && len(o.Viols) == 0 {
		checkCompareCLI(t, o, pc)
	}
	if fkind != "" {
		ok := guard(o, "CommonEdges", func() {
			a, b := mustParse(pc.Ref), mustParse(pc.Recs[fpos].Text)
			if a.ReinitIndexes() != nil || b.ReinitIndexes() != nil {
				return
			}
			if _, _, err := a.CommonEdges(b, pc.Tips); err == nil {
				o.Fail("mismatch-accepted:CommonEdges:"+fkind, "CommonEdges accepts trees on different taxa (%s)\n  a %s\n  b %s", fkind, pc.Ref, pc.Recs[fpos].Text)
			}
		})
		_ = ok
	}
}

func checkCommonEdges(o *Outcome, aText, bText string, tips bool) {
	guard(o, "CommonEdges", func() {
		a, b := mustParse(aText), mustParse(bText)
		if err := a.ReinitIndexes(); err != nil {
			panic("harness: " + err.Error())
		}
		if err := b.ReinitIndexes(); err != nil {
			panic("harness: " + err.Error())
		}
		t1, common, err := a.CommonEdges(b, tips)
		am, _ := ParseRef(aText)
		bm, _ := ParseRef(bText)
		w := wantCompare(am, bm, tips)
		if err != nil {
			o.Fail("unexpected-error:CommonEdges", "CommonEdges fails on trees with the same taxa: %v\n  a %s\n  b %s", err, aText, bText)
			return
		}
		if t1 != w.t1 || common != w.c {
			o.Fail("CommonEdges:counts", "CommonEdges(tips=%v) = (%d specific, %d common), the split sets say (%d, %d)\n  a %s\n  b %s", tips, t1, common, w.t1, w.c, aText, bText)
		}
	})
}

var _ = math.Abs
var _ = strings.Join
var _ *tree.Tree

// checkCommonEdgesAfterEdit: the documented manual way of (re)computing the indexes (UpdateTipIndex, ClearBitSets, UpdateBitSet)
// on a tree that was fully indexed once and then edited in place (an NNI), against a tree indexed that way only.
func checkCommonEdgesAfterEdit(o *Outcome, aText, bText string, tips bool) {
	guard(o, "CommonEdges-after-edit", func() {
		a, b := mustParse(aText), mustParse(bText)
		if err := a.ReinitIndexes(); err != nil {
			panic("harness: " + err.Error())
		}
		var rs []tree.Rearrangement
		(&tree.NNIRearranger{}).Rearrange(a, func(re tree.Rearrangement) bool { rs = append(rs, re); return len(rs) < 3 })
		if len(rs) == 0 {
			return
		}
		if err := rs[len(rs)-1].Apply(); err != nil {
			return
		}
		o.Probe("common-edges-after-in-place-edit")
		for _, tr := range []*tree.Tree{a, b} {
			if err := tr.UpdateTipIndex(); err != nil {
				panic("harness: " + err.Error())
			}
			if err := tr.ClearBitSets(); err != nil {
				panic("harness: " + err.Error())
			}
			if err := tr.UpdateBitSet(); err != nil {
				panic("harness: " + err.Error())
			}
		}
		edited := a.Newick()
		am, err := ParseRef(edited)
		if err != nil {
			return
		}
		w := wantCompare(am, mustModel(bText), tips)
		t1, common, err := a.CommonEdges(b, tips)
		if err != nil {
			o.Fail("unexpected-error:CommonEdges", "CommonEdges fails after an in-place edit and a manual re-index: %v\n  a %s\n  b %s", err, edited, bText)
			return
		}
		if t1 != w.t1 || common != w.c {
			o.Fail("CommonEdges:counts-after-edit", "tree a was indexed, edited in place by an NNI and re-indexed with UpdateTipIndex / ClearBitSets / UpdateBitSet: CommonEdges(tips=%v) = (%d specific, %d common), the split sets say (%d, %d)\n  a before %s\n  a after  %s\n  b        %s", tips, t1, common, w.t1, w.c, aText, edited, bText)
		}
	})
}

// absAll: the statement says "the length differences of shared splits" without fixing their sign
func absAll(xs []float64) []float64 {
	out := make([]float64, len(xs))
	for i, x := range xs {
		out[i] = math.Abs(x)
	}
	return out
}
