package sim

// C09 — consensus contains exactly the sufficiently frequent splits.
// Decided as the oracle of the reader goroutine -> tree.Consensus pipeline under the deterministic scheduler.

import (
	"fmt"
	"hash/fnv"
	"math"
	"sort"
	"strconv"
	"testing"

	"pgregory.net/rapid"
)

var c09Cutoffs = []float64{0.5, 0.5625, 0.625, 0.75, 0.875, 1}
var c09BadCutoffs = []float64{0.49, 0.25, 0, -1, 1.01, 2, math.NaN()}

func init() {
	Register(&Engine{
		Name: "c09", Prop: "C09",
		Rule: "case = (1..16 trees on the same 4..10 (sometimes 60..130, incl. 63/64/65/127/128/129) taxa, named by one of several schemes, built from one or two base trees by SPR moves, contractions, re-rooting, rotation and rooting on a " +
			"branch, so that many split frequencies are k/n exactly; threshold from {0.5, 0.5625, 0.625, 0.75, 0.875, 1} (dyadic: threshold·n is exact) or an " +
			"out-of-range one; optional faulty record (foreign / missing / extra taxon, duplicate tip, malformed text, error record) at a drawn position; " +
			"feed = real reader goroutine over a chunked stream or a producer; producer/consumer schedule; a second copy of the collection in another order " +
			"and presentation; for a quarter of the cases identical texts are delivered as the same tree object; for a share of the cases with a foreign " +
			"taxon, 40 further collections in which one taxon of one tree is renamed so that every name keeps its rank). Oracle: naive frequency table over the split maps of the independent reference model. Non-trivial: ≥ 1 split is kept with " +
			"frequency < 1 and ≥ 1 is dropped, or a frequency equals the threshold exactly; distinct = distinct (threshold, tree texts)",
		Gen: func(rt *rapid.T, tier string) any {
			pc := genPipe(rt, tier, pipeGenOpts{algos: []string{"consensus"}, faults: true, minTax: 4, maxTax: 10, maxTrees: 16, rootedRecs: true, twoBases: true, maxFaults: 3})
			if rapid.IntRange(0, 9).Draw(rt, "badcutoff") == 0 {
				pc.Cutoff = rapid.SampledFrom(c09BadCutoffs).Draw(rt, "cutoff")
				pc.BadCutoff = true
			} else {
				pc.Cutoff = rapid.SampledFrom(c09Cutoffs).Draw(rt, "cutoff")
			}
			if math.IsNaN(pc.Cutoff) {
				pc.Cutoff, pc.NaNCutoff = 0, true
			}
			pc.Recs2 = genRecs2(rt, pc.Recs, true)
			pc.ShareObjects = rapid.IntRange(0, 3).Draw(rt, "shareobjects") == 0
			return pc
		},
		New:  func() any { return &PipeCase{} },
		Exec: execC09,
		Real: []string{"tree.Consensus", "EdgeIndex.AddEdgeCount/Edges", "Tree.AddBipartition", "LeastCommonAncestorUnrooted", "StarTreeFromTree", "utils.ReadMultiTrees reader goroutine", "newick parser and writer"},
		Simulated: []string{"choice of the runnable goroutine (reader vs. consumer)", "input byte stream (chunking, buffer size)", "position and kind of the faulty record",
			"order and presentation of the input trees"},
		Expected: []string{"frequency-equals-threshold", "rooted-input", "all-rooted-input", "split-kept-below-one", "split-dropped", "fault-first", "fault-last", "bad-cutoff"},
	})
}

type consWant struct {
	count  int
	lenSum float64
	triv   bool
}

func consensusTable(models []*RNode) map[string]*consWant {
	tab := map[string]*consWant{}
	for _, m := range models {
		for k, si := range m.Splits() {
			w := tab[k]
			if w == nil {
				w = &consWant{triv: si.Trivial}
				tab[k] = w
			}
			w.count++
			w.lenSum += si.Len
		}
	}
	return tab
}

func closeTo(a, b float64) bool { return math.Abs(a-b) <= 1e-9*(1+math.Abs(b)) }

// checkConsensus compares a consensus text with the frequency table.
func checkConsensus(o *Outcome, text string, tab map[string]*consWant, n int, cutoff float64, ctx string) {
	cm, err := ParseRef(text)
	if err != nil {
		o.Fail("consensus:output-unparsable", "consensus is not Newick: %v\n%s\n  cons %s", err, ctx, text)
		return
	}
	got := cm.Splits()
	nwant := 0
	for _, k := range sortedKeys(tab) {
		w := tab[k]
		freq := float64(w.count) / float64(n)
		keep := freq > cutoff || w.count == n
		if freq == cutoff {
			o.Probe("frequency-equals-threshold")
			o.Nontrivial = true
		}
		g := got[k]
		if !keep {
			if g != nil {
				o.Fail("consensus:extra-split", "split {%s} occurs in %d of %d trees (threshold %v) but is in the consensus\n%s\n  cons %s", k, w.count, n, cutoff, ctx, text)
			}
			if !w.triv {
				o.Probe("split-dropped")
			}
			continue
		}
		nwant++
		if g == nil {
			o.Fail("consensus:missing-split", "split {%s} occurs in %d of %d trees (threshold %v) but is not in the consensus\n%s\n  cons %s", k, w.count, n, cutoff, ctx, text)
			continue
		}
		if g.N != 1 {
			o.Fail("consensus:split-twice", "split {%s} is carried by %d branches of the consensus\n%s\n  cons %s", k, g.N, ctx, text)
		}
		if want := w.lenSum / float64(w.count); !g.HasLen || !closeTo(g.Len, want) {
			kind := "inner"
			if w.triv {
				kind = "tip"
			}
			o.Fail("consensus:length:"+kind, "%s branch {%s}: length %v (present %v), mean over the %d trees containing it is %v\n%s\n  cons %s", kind, k, g.Len, g.HasLen, w.count, want, ctx, text)
		}
		if !w.triv {
			if w.count < n {
				o.Probe("split-kept-below-one")
			}
			v, err := strconv.ParseFloat(g.Label, 64)
			if err != nil || !closeTo(v, freq) {
				o.Fail("consensus:support", "branch {%s}: support %q, frequency is %d/%d = %v\n%s\n  cons %s", k, g.Label, w.count, n, freq, ctx, text)
			}
		}
	}
	for _, k := range sortedKeys(got) {
		if tab[k] == nil {
			o.Fail("consensus:extra-split", "split {%s} of the consensus occurs in no input tree\n%s\n  cons %s", k, ctx, text)
		}
	}
	if o.Probes["split-kept-below-one"] > 0 && o.Probes["split-dropped"] > 0 {
		o.Nontrivial = true
	}
}

// foreignSweep: one tree of the collection gets, in turn, 40 different names for one of its taxa. Each new name sorts exactly
// where the old one did (every other taxon keeps its rank), so whatever is derived from ranks or from a few bits of a name
// hash cannot tell the collections apart: only the names can.
func foreignSweep(t *testing.T, o *Outcome, run *PipeCase, models []*RNode) {
	tips := models[0].Tips()
	sort.Strings(tips)
	src := models[len(models)-1].Newick()
	for k := 0; k < 40; k++ {
		victim := tips[k%len(tips)]
		v := *run
		v.Feed, v.Recs = "chan", nil
		for _, m := range models {
			v.Recs = append(v.Recs, Rec{Text: m.Newick()})
		}
		pos := 1 + k%len(v.Recs) // never the first tree: the first tree defines the taxa
		bad := Rec{Text: replaceTip(src, victim, victim+"!"+strconv.Itoa(k)), Fault: "foreign"}
		v.Recs = append(v.Recs[:pos:pos], append([]Rec{bad}, v.Recs[pos:]...)...)
		got := runPipe(t, &v, 1, seqSched(), 4_000_000)
		o.Steps += int64(got.Sched.Steps)
		o.Probe("foreign-name-sweep")
		if !liveness(o, got, "consensus (foreign name sweep)") {
			return
		}
		if got.Err == nil {
			o.Fail("consensus:fault-accepted:foreign", "tree %d of %d has taxon %q instead of %q (same rank in sorted order) but no error is returned\n  trees %s\n  cons %s", pos, len(v.Recs), victim+"!"+strconv.Itoa(k), victim, recTexts(v.Recs), got.RefOut)
			return
		}
	}
}

func execC09(t *testing.T, c any, o *Outcome) {
	pc := c.(*PipeCase)
	cutoff := pc.Cutoff
	if pc.NaNCutoff {
		cutoff = math.NaN()
	}
	run := *pc
	run.Cutoff = cutoff
	fpos, fkind := pc.hasFault()
	h := fnv.New64a()
	fmt.Fprint(h, cutoff)
	var models []*RNode
	nrooted := 0
	for _, r := range pc.Recs {
		fmt.Fprint(h, r.Text)
		if r.Fault != "" {
			continue
		}
		m, err := ParseRef(r.Text)
		if err != nil {
			panic("harness: model cannot parse a generated tree")
		}
		if len(m.Children) == 2 {
			nrooted++
		}
		models = append(models, m)
	}
	o.Key = fmt.Sprintf("%016x", h.Sum64())
	if nrooted > 0 {
		o.Probe("rooted-input")
		if nrooted == len(models) {
			o.Probe("all-rooted-input")
		}
	}
	got := runPipe(t, &run, 1, pc.Sched, 4_000_000)
	o.Steps = int64(got.Sched.Steps)
	if !liveness(o, got, "consensus") {
		return
	}
	ctx := fmt.Sprintf("  threshold %v\n  trees %s", cutoff, recTexts(pc.Recs))
	if pc.BadCutoff {
		o.Probe("bad-cutoff")
		if got.Err == nil {
			o.Fail("consensus:bad-threshold-accepted", "threshold %v outside [0.5,1] is accepted\n%s", cutoff, ctx)
		}
		if !pc.NaNCutoff && len(o.Viols) == 0 {
			checkConsensusCLI(t, o, pc, cutoff)
		}
		return
	}
	if fkind != "" {
		o.Fault(fkind)
		if fpos == 0 {
			o.Probe("fault-first")
		}
		if fpos == len(pc.Recs)-1 {
			o.Probe("fault-last")
		}
		if got.Err == nil {
			// a single tree cannot differ from the others
			if !(len(pc.Recs) == 1 && (fkind == "foreign" || fkind == "missing" || fkind == "extra")) {
				o.Fail("consensus:fault-accepted:"+fkind, "tree %d of %d is %s but no error is returned\n%s\n  cons %s", fpos, len(pc.Recs), fkind, ctx, got.RefOut)
			}
		}
		if fkind == "foreign" && len(models) > 0 && len(pc.Recs) > 1 && len(models[0].Tips()) <= 12 && h.Sum64()%3 == 0 && len(o.Viols) == 0 {
			foreignSweep(t, o, &run, models)
		}
		return
	}
	if got.Err != nil {
		o.Fail("consensus:unexpected-error", "error on a collection of trees on the same taxa: %v\n%s", got.Err, ctx)
		return
	}
	tab := consensusTable(models)
	checkConsensus(o, got.RefOut, tab, len(models), cutoff, ctx)
	if pc.Chunk == 1 && len(o.Viols) == 0 {
		checkConsensusCLI(t, o, pc, cutoff)
	}
	// same collection in another order / rooting / child order
	if len(pc.Recs2) == len(models) {
		run2 := run
		run2.Recs, run2.Feed = pc.Recs2, "chan"
		got2 := runPipe(t, &run2, 1, seqSched(), 4_000_000)
		o.Steps += int64(got2.Sched.Steps)
		if liveness(o, got2, "consensus (re-ordered, re-presented collection)") {
			ctx2 := fmt.Sprintf("  threshold %v\n  trees %s", cutoff, recTexts(pc.Recs2))
			if got2.Err != nil {
				o.Fail("consensus:unexpected-error", "error on the re-ordered collection: %v\n%s", got2.Err, ctx2)
			} else {
				sub := &Outcome{}
				checkConsensus(sub, got2.RefOut, tab, len(models), cutoff, ctx2)
				for _, v := range sub.Viols {
					o.Fail(v.Class+":reordered", "%s", v.Detail)
				}
			}
		}
	}
}
