package sim

// The command layer of the pipeline properties: the same oracles applied to what the commands print
// (cmd/comparetrees.go, cmd/consensus.go, cmd/classical.go, cmd/booster.go are anchors of C08, C09, C10).

import (
	"fmt"
	"math"
	"os"
	"path/filepath"
	"strconv"
	"strings"
	"testing"
)

// runCLI executes one gotree command in-process inside the scheduler. args use @name for files of `files`, @OUT / @X1 for outputs.
func runCLI(t *testing.T, files map[string]string, args []string, stdout bool, threads int, sc SchedCase) detResult {
	dir, err := os.MkdirTemp("", "verifcli")
	if err != nil {
		panic("harness: " + err.Error())
	}
	defer os.RemoveAll(dir)
	for n, s := range files {
		if err := os.WriteFile(filepath.Join(dir, n), []byte(s), 0644); err != nil {
			panic("harness: " + err.Error())
		}
	}
	tpl := &detTemplate{name: args[0], args: args, stdout: stdout, threaded: true}
	return runInProcess(t, dir, tpl, &DetCase{Seed: 1, Threads: threads}, Seam{MapSeed: 1, Epoch: 1000, Sched: sc}, "cli")
}

func goodTexts(recs []Rec) (texts []string, models []*RNode) {
	for _, r := range recs {
		if r.Fault == "" {
			texts = append(texts, r.Text)
			models = append(models, mustModel(r.Text))
		}
	}
	return
}

// checkCompareCLI: `gotree compare trees` prints, per tree id, exactly the counts / flags / distances of the model.
func checkCompareCLI(t *testing.T, o *Outcome, pc *PipeCase) {
	texts, models := goodTexts(pc.Recs)
	if len(texts) == 0 {
		return
	}
	refm := mustModel(pc.Ref)
	files := map[string]string{"ref.nw": pc.Ref + "\n", "trees.nw": strings.Join(texts, "\n") + "\n"}
	args := []string{"compare", "trees", "-i", "@ref.nw", "-c", "@trees.nw", "-t", "@T", "--seed", "1"}
	if pc.Tips {
		args = append(args, "-l")
	}
	mode := "counts"
	switch {
	case pc.Algo == "compareW" && pc.Identical:
		args, mode = append(args, "--weighted", "--binary"), "wbinary"
	case pc.Algo == "compareW":
		args, mode = append(args, "--weighted"), "weighted"
	case pc.Identical:
		args, mode = append(args, "--binary"), "binary"
	}
	res := runCLI(t, files, args, true, pc.Cpus, pc.Sched)
	o.Probe("cli:compare:" + mode)
	ctx := fmt.Sprintf("gotree %s\n  ref   %s\n  trees %s\n  output:\n%s", strings.Join(args, " "), pc.Ref, strings.Join(texts, " "), res.outs["stdout"])
	if res.status != "ok" {
		o.Fail("cli:compare:failed", "the command fails on trees with the same taxa: %s\n%s", res.status, ctx)
		return
	}
	seen := map[int]bool{}
	for _, ln := range strings.Split(res.outs["stdout"], "\n") {
		f := strings.Split(strings.TrimSpace(ln), "\t")
		id, err := strconv.Atoi(f[0])
		if err != nil || id < 0 || id >= len(models) {
			continue // header or blank line
		}
		seen[id] = true
		w := wantCompare(refm, models[id], pc.Tips)
		same := w.t1 == 0 && w.t2 == 0
		switch mode {
		case "counts":
			if len(f) != 4 || f[1] != strconv.Itoa(w.t1) || f[2] != strconv.Itoa(w.c) || f[3] != strconv.Itoa(w.t2) {
				o.Fail("cli:compare:counts", "tree %d: printed %v, the split sets give reference-only %d, common %d, compared-only %d\n%s", id, f, w.t1, w.c, w.t2, ctx)
				return
			}
		case "binary":
			if len(f) != 2 || f[1] != strconv.FormatBool(same) {
				o.Fail("cli:compare:binary", "tree %d: printed %v, the split sets say identical=%v\n%s", id, f, same, ctx)
				return
			}
		case "wbinary":
			if len(f) == 2 && f[1] == "true" && !same {
				o.Fail("cli:compare:binary", "tree %d: printed identical although the split sets differ\n%s", id, ctx)
				return
			}
		case "weighted":
			wrf, kf := 0.0, 0.0
			for _, d := range w.wc {
				wrf += math.Abs(d)
				kf += d * d
			}
			for _, l := range append(append([]float64{}, w.w1...), w.w2...) {
				wrf += l
				kf += l * l
			}
			kf = math.Sqrt(kf)
			g1, e1 := strconv.ParseFloat(f[1], 64)
			g2 := math.NaN()
			var e2 error = fmt.Errorf("missing")
			if len(f) > 2 {
				g2, e2 = strconv.ParseFloat(f[2], 64)
			}
			if e1 != nil || e2 != nil || math.Abs(g1-wrf) > 1e-5*(1+wrf) || math.Abs(g2-kf) > 1e-5*(1+kf) {
				o.Fail("cli:compare:weighted", "tree %d: printed %v, the split sets give weighted RF %v and KF %v\n%s", id, f, wrf, kf, ctx)
				return
			}
		}
	}
	if len(seen) != len(models) {
		o.Fail("cli:compare:records", "%d of %d trees reported\n%s", len(seen), len(models), ctx)
	}
}

// checkConsensusCLI: `gotree compute consensus -f` prints the consensus of the oracle.
func checkConsensusCLI(t *testing.T, o *Outcome, pc *PipeCase, cutoff float64) {
	texts, models := goodTexts(pc.Recs)
	if len(texts) == 0 || len(texts) != len(pc.Recs) {
		return
	}
	files := map[string]string{"trees.nw": strings.Join(texts, "\n") + "\n"}
	args := []string{"compute", "consensus", "-i", "@trees.nw", "-f", strconv.FormatFloat(cutoff, 'g', -1, 64), "--seed", "1", "-o", "@OUT"}
	res := runCLI(t, files, args, false, 1, pc.Sched)
	o.Probe("cli:consensus")
	ctx := fmt.Sprintf("gotree %s\n  trees %s", strings.Join(args, " "), strings.Join(texts, " "))
	if pc.BadCutoff {
		if res.status == "ok" {
			o.Fail("cli:consensus:bad-threshold-accepted", "threshold %v outside [0.5,1] is accepted\n%s", cutoff, ctx)
		}
		return
	}
	if res.status != "ok" {
		o.Fail("cli:consensus:failed", "the command fails: %s\n%s", res.status, ctx)
		return
	}
	sub := &Outcome{}
	checkConsensus(sub, strings.TrimSpace(res.outs["OUT"]), consensusTable(models), len(models), cutoff, ctx)
	for _, v := range sub.Viols {
		o.Fail("cli:"+v.Class, "%s", v.Detail)
	}
}

// checkSupportCLI: `gotree compute support fbp|tbe` annotates the reference tree with the supports of the definition.
func checkSupportCLI(t *testing.T, o *Outcome, pc *PipeCase, algo string) {
	texts, models := goodTexts(pc.Recs)
	if len(texts) == 0 || len(texts) != len(pc.Recs) {
		return
	}
	files := map[string]string{"ref.nw": pc.Ref + "\n", "trees.nw": strings.Join(texts, "\n") + "\n"}
	args := []string{"compute", "support", algo, "-i", "@ref.nw", "-b", "@trees.nw", "-t", "@T", "-l", "@X1", "--silent", "--seed", "1", "-o", "@OUT"}
	res := runCLI(t, files, args, false, pc.Cpus, pc.Sched)
	o.Probe("cli:support:" + algo)
	ctx := fmt.Sprintf("gotree %s\n  ref   %s\n  boots %s", strings.Join(args, " "), pc.Ref, strings.Join(texts, " "))
	if res.status != "ok" {
		o.Fail("cli:"+algo+":failed", "the command fails: %s\n%s", res.status, ctx)
		return
	}
	want, _ := wantSupports(mustModel(pc.Ref), models)
	sub := &Outcome{}
	out := strings.TrimSpace(res.outs["OUT"])
	sup := readSupports(sub, algo, out, want, ctx)
	for _, v := range sub.Viols {
		o.Fail("cli:"+v.Class, "%s", v.Detail)
	}
	for _, k := range sortedKeys(want) {
		v, ok := sup[k]
		if !ok {
			continue
		}
		w := want[k].fbp
		if algo == "tbe" {
			w = want[k].tbe
		}
		if math.Abs(v-w) > 1e-9 {
			o.Fail("cli:"+algo+":value", "support of split {%s} is %v, the definition gives %v\n%s\n  out   %s", k, v, w, ctx, out)
			return
		}
	}
}
