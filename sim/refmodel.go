package sim

// Reference model: an independent Newick reader (no gotree code) and the views derived from it.

import (
	"fmt"
	"sort"
	"strconv"
	"strings"
)

type RNode struct {
	Label      string   // raw label after the node (tip name, inner name, or support[/pvalue])
	Children   []*RNode // in text order
	HasLen     bool
	Len        float64
	LenStr     string
	Comments   []string // node comments
	BrComments []string // branch comments (after the length)
	Parent     *RNode
}

type rparser struct {
	s   string
	pos int
}

func (p *rparser) ws() {
	for p.pos < len(p.s) && (p.s[p.pos] == ' ' || p.s[p.pos] == '\t' || p.s[p.pos] == '\n' || p.s[p.pos] == '\r') {
		p.pos++
	}
}

func (p *rparser) peek() byte {
	p.ws()
	if p.pos >= len(p.s) {
		return 0
	}
	return p.s[p.pos]
}

func (p *rparser) label() string {
	p.ws()
	st := p.pos
	for p.pos < len(p.s) && !strings.ContainsRune("()[],:;", rune(p.s[p.pos])) {
		p.pos++
	}
	return strings.TrimSpace(p.s[st:p.pos])
}

func (p *rparser) comments() (out []string, err error) {
	for p.peek() == '[' {
		end := strings.IndexByte(p.s[p.pos:], ']')
		if end < 0 {
			return nil, fmt.Errorf("unterminated comment at %d", p.pos)
		}
		out = append(out, p.s[p.pos+1:p.pos+end])
		p.pos += end + 1
	}
	return
}

func (p *rparser) node() (*RNode, error) {
	n := &RNode{}
	if p.peek() == '(' {
		p.pos++
		for {
			c, err := p.node()
			if err != nil {
				return nil, err
			}
			c.Parent = n
			n.Children = append(n.Children, c)
			switch p.peek() {
			case ',':
				p.pos++
				continue
			case ')':
				p.pos++
			default:
				return nil, fmt.Errorf("expected , or ) at %d", p.pos)
			}
			break
		}
	}
	n.Label = p.label()
	var err error
	if n.Comments, err = p.comments(); err != nil {
		return nil, err
	}
	if p.peek() == ':' {
		p.pos++
		n.LenStr = p.label()
		n.Len, err = strconv.ParseFloat(n.LenStr, 64)
		if err != nil {
			return nil, fmt.Errorf("bad length %q", n.LenStr)
		}
		n.HasLen = true
		if n.BrComments, err = p.comments(); err != nil {
			return nil, err
		}
	}
	return n, nil
}

// ParseRef reads one Newick tree.
func ParseRef(s string) (*RNode, error) {
	p := &rparser{s: s}
	if _, err := p.comments(); err != nil { // leading comment
		return nil, err
	}
	r, err := p.node()
	if err != nil {
		return nil, err
	}
	if p.peek() != ';' {
		return nil, fmt.Errorf("expected ; at %d in %q", p.pos, s)
	}
	return r, nil
}

func (n *RNode) IsTip() bool { return len(n.Children) == 0 }

func (n *RNode) Tips() []string {
	if n.IsTip() {
		return []string{n.Label}
	}
	var out []string
	for _, c := range n.Children {
		out = append(out, c.Tips()...)
	}
	return out
}

// Shape returns a canonical text of the rooted shape with child order, labels and lengths
func (n *RNode) Shape(withLen bool) string {
	var b strings.Builder
	n.shape(&b, withLen)
	return b.String()
}

func (n *RNode) shape(b *strings.Builder, withLen bool) {
	if !n.IsTip() {
		b.WriteByte('(')
		for i, c := range n.Children {
			if i > 0 {
				b.WriteByte(',')
			}
			c.shape(b, withLen)
		}
		b.WriteByte(')')
	}
	b.WriteString(n.Label)
	if withLen && n.HasLen {
		b.WriteString(":" + strconv.FormatFloat(n.Len, 'g', -1, 64))
	}
}

type SplitInfo struct {
	Len     float64
	HasLen  bool
	Label   string // raw label of the node below the branch ("" for tips' own name not repeated)
	N       int    // number of branches mapping to this split (2 for the two root branches of a rooted tree)
	Trivial bool
}

// Splits returns the unrooted split map. Key: sorted tip names of the side that does not contain the
// smallest tip name, joined by "|".
func (n *RNode) Splits() map[string]*SplitInfo {
	all := n.Tips()
	sort.Strings(all)
	if len(all) == 0 {
		return nil
	}
	minTip := all[0]
	out := map[string]*SplitInfo{}
	var rec func(x *RNode) []string
	rec = func(x *RNode) []string {
		var tips []string
		if x.IsTip() {
			tips = []string{x.Label}
		}
		for _, c := range x.Children {
			tips = append(tips, rec(c)...)
		}
		if x.Parent != nil {
			side := append([]string(nil), tips...)
			sort.Strings(side)
			hasMin := false
			for _, s := range side {
				if s == minTip {
					hasMin = true
				}
			}
			if hasMin { // complement
				set := map[string]bool{}
				for _, s := range side {
					set[s] = true
				}
				side = side[:0]
				for _, s := range all {
					if !set[s] {
						side = append(side, s)
					}
				}
			}
			key := strings.Join(side, "|")
			si := out[key]
			if si == nil {
				si = &SplitInfo{Trivial: len(side) <= 1 || len(side) >= len(all)-1}
				out[key] = si
			}
			si.N++
			if x.HasLen {
				si.Len += x.Len
				si.HasLen = true
			}
			if !x.IsTip() && x.Label != "" {
				si.Label = x.Label
			}
		}
		return tips
	}
	rec(n)
	return out
}

// Dist returns the tip-to-tip path length matrix (absent lengths count 0), keyed "a|b" with a<b.
func (n *RNode) Dist() map[string]float64 {
	type tipd struct {
		name string
		d    float64
	}
	out := map[string]float64{}
	var rec func(x *RNode) []tipd
	rec = func(x *RNode) []tipd {
		if x.IsTip() {
			return []tipd{{x.Label, 0}}
		}
		var groups [][]tipd
		for _, c := range x.Children {
			g := rec(c)
			for i := range g {
				g[i].d += c.Len // 0 when absent
			}
			groups = append(groups, g)
		}
		var all []tipd
		for i, g := range groups {
			for j := i + 1; j < len(groups); j++ {
				for _, a := range g {
					for _, b := range groups[j] {
						k := a.name + "|" + b.name
						if b.name < a.name {
							k = b.name + "|" + a.name
						}
						out[k] = a.d + b.d
					}
				}
			}
			all = append(all, g...)
		}
		return all
	}
	rec(n)
	return out
}
