module sim

go 1.26.8

godebug (
	asynctimerchan=0
	default=go1.21
)

require (
	github.com/anishathalye/porcupine v1.3.0
	github.com/evolbioinfo/gotree v0.0.0
	github.com/spf13/cobra v1.5.0
	github.com/spf13/pflag v1.0.5
	pgregory.net/rapid v1.3.0
	verifhook v0.0.0
)

require (
	git.sr.ht/~sbinet/gg v0.5.0 // indirect
	github.com/abiosoft/ishell v2.0.0+incompatible // indirect
	github.com/abiosoft/readline v0.0.0-20180607040430-155bce2042db // indirect
	github.com/ajstarks/svgo v0.0.0-20211024235047-1546f124cd8b // indirect
	github.com/armon/go-radix v1.0.0 // indirect
	github.com/evolbioinfo/goalign v0.3.7-0.20230906113011-fcecb09f9d43 // indirect
	github.com/fatih/color v1.10.0 // indirect
	github.com/flynn-archive/go-shlex v0.0.0-20150515145356-3f9db97f8568 // indirect
	github.com/fredericlemoine/bitset v1.2.0 // indirect
	github.com/fredericlemoine/cobrashell v0.0.0-20180921081141-49c72f93426c // indirect
	github.com/fredericlemoine/gostats v0.1.1 // indirect
	github.com/go-fonts/liberation v0.3.1 // indirect
	github.com/go-latex/latex v0.0.0-20230307184459-12ec69307ad9 // indirect
	github.com/go-pdf/fpdf v0.8.0 // indirect
	github.com/golang/freetype v0.0.0-20170609003504-e2365dfdc4a0 // indirect
	github.com/jlaffaye/ftp v0.0.0-20210307004419-5d4190119067 // indirect
	github.com/llgcode/draw2d v0.0.0-20210313082411-577c1ead272a // indirect
	github.com/mattn/go-colorable v0.1.8 // indirect
	github.com/mattn/go-isatty v0.0.12 // indirect
	golang.org/x/image v0.11.0 // indirect
	golang.org/x/sys v0.11.0 // indirect
	golang.org/x/text v0.12.0 // indirect
	gonum.org/v1/plot v0.14.0 // indirect
)

replace github.com/evolbioinfo/gotree => ../gotree

replace verifhook => ../hook
