package sim

// C10 — bootstrap supports equal their definitions (FBP and TBE).
// Decided as the oracle of the FBP / TBE pipelines run under the deterministic scheduler.

import (
	"fmt"
	"hash/fnv"
	"math"
	"sort"
	"strconv"
	"strings"
	"testing"

	"pgregory.net/rapid"
)

func init() {
	Register(&Engine{
		Name: "c10", Prop: "C10",
		Rule: "case = (reference tree rooted or not, 1..10 bootstrap trees on the same 4..16 (sometimes 60..130) taxa (binary or multifurcating, a few rooted), optional " +
			"taxon-mismatched tree (foreign / missing / extra taxon) at a drawn position, feed, thread count, schedule, TBE options, a second copy of the " +
			"collection in another order, rooting and child order); FBP and TBE both run on the collection (one under the drawn schedule and thread count), " +
			"then on the re-ordered copy; the reference may already carry supports (fractions or percentages), and for a share of the cases the other " +
			"support has been computed on the same reference object first. Oracle: brute-force split membership and Hamming/transfer distances on the independent reference model. " +
			"Non-trivial: some inner reference branch has 0 < FBP < 1 and FBP < TBE < 1; distinct = distinct (reference text, bootstrap texts)",
		Gen: func(rt *rapid.T, tier string) any {
			pc := genPipe(rt, tier, pipeGenOpts{algos: []string{"fbp", "tbe"}, faults: true, faultKinds: []string{"foreign", "missing", "extra"},
				minTax: 4, maxTax: 16, maxTrees: 13, rootedRef: true, rootedRecs: true, maxFaults: 3})
			pc.Recs2 = genRecs2(rt, pc.Recs, true)
			return pc
		},
		New:  func() any { return &PipeCase{} },
		Exec: execC10,
		Real: []string{"support.FBP", "support.TBE", "support.MinTransferDist", "Tree.CompareTipIndexes", "utils.ReadMultiTrees reader goroutine", "hashmap/EdgeIndex", "newick parser and writer"},
		Simulated: []string{"choice of the runnable goroutine at every channel/WaitGroup/lock/shared-variable point", "input byte stream (chunking, buffer size)",
			"position and kind of the taxon-mismatched tree", "order and presentation of the bootstrap trees"},
		Expected: []string{"rooted-reference", "rooted-bootstrap-tree", "mismatch-first", "mismatch-last", "tbe-strictly-between", "fbp-one", "fbp-zero"},
	})
}

// genRecs2 returns the fault-free records of recs in another order, each in another presentation.
func genRecs2(rt *rapid.T, recs []Rec, allowRooted bool) []Rec {
	r := rapidRnd{rt}
	var good []Rec
	for _, x := range recs {
		if x.Fault == "" {
			good = append(good, x)
		}
	}
	out := make([]Rec, 0, len(good))
	for len(good) > 0 {
		i := r.Intn(len(good))
		m, err := ParseRef(good[i].Text)
		if err != nil {
			panic("harness: model cannot parse a generated tree")
		}
		Unroot(m)
		m = represent(m, r)
		if allowRooted && rapid.IntRange(0, 3).Draw(rt, "root2") == 0 {
			all := m.all()
			m = rootAtRandom(m, all, r)
		}
		out = append(out, Rec{Text: m.Newick()})
		good = append(good[:i], good[i+1:]...)
	}
	return out
}

// nodeSplits gives, for every non-root node of a model tree, the canonical key of the split of the branch above it.
func nodeSplits(root *RNode) (keys map[*RNode]string, all []string) {
	all = root.Tips()
	sort.Strings(all)
	keys = map[*RNode]string{}
	var rec func(x *RNode) []string
	rec = func(x *RNode) []string {
		var tips []string
		if x.IsTip() {
			tips = []string{x.Label}
		}
		for _, c := range x.Children {
			tips = append(tips, rec(c)...)
		}
		if x.Parent != nil {
			set := map[string]bool{}
			for _, s := range tips {
				set[s] = true
			}
			var side []string
			for _, s := range all {
				if set[s] != set[all[0]] { // the side that does not contain the smallest tip name
					side = append(side, s)
				}
			}
			keys[x] = strings.Join(side, "|")
		}
		return tips
	}
	rec(root)
	return
}

func keySet(key string) map[string]bool {
	s := map[string]bool{}
	if key == "" {
		return s
	}
	for _, x := range strings.Split(key, "|") {
		s[x] = true
	}
	return s
}

// transferDist is the definition: minimum over all branches of the bootstrap tree of the number of taxa to move.
func transferDist(a map[string]bool, boot map[string]*SplitInfo, all []string) int {
	best := math.MaxInt32
	for k := range boot {
		b := keySet(k)
		h := 0
		for _, t := range all {
			if a[t] != b[t] {
				h++
			}
		}
		if len(all)-h < h {
			h = len(all) - h
		}
		if h < best {
			best = h
		}
	}
	return best
}

type supWant struct {
	fbp, tbe float64
	p        int
}

func wantSupports(refm *RNode, boots []*RNode) (map[string]supWant, []string) {
	keys, all := nodeSplits(refm)
	var bs []map[string]*SplitInfo
	for _, b := range boots {
		bs = append(bs, b.Splits())
	}
	out := map[string]supWant{}
	for _, k := range keys {
		if _, done := out[k]; done {
			continue
		}
		a := keySet(k)
		p := len(a)
		if len(all)-p < p {
			p = len(all) - p
		}
		if p < 2 {
			continue
		}
		cnt, sum := 0, 0
		for _, b := range bs {
			if _, ok := b[k]; ok {
				cnt++
			}
			sum += transferDist(a, b, all)
		}
		n := float64(len(bs))
		out[k] = supWant{fbp: float64(cnt) / n, tbe: 1 - (float64(sum)/n)/float64(p-1), p: p}
	}
	return out, all
}

// readSupports parses the annotated reference tree and returns support per split key; both root branches of a
// rooted tree must agree.
func readSupports(o *Outcome, algo, text string, want map[string]supWant, ctx string) map[string]float64 {
	om, err := ParseRef(text)
	if err != nil {
		o.Fail(algo+":output-unparsable", "annotated reference tree is not Newick: %v\n%s\n  out %s", err, ctx, text)
		return nil
	}
	keys, _ := nodeSplits(om)
	got := map[string]float64{}
	// whatever branch a support is written on (the branch above a root child whose split is trivial included), it is a number in [0,1]
	for _, x := range om.all() {
		if x.IsTip() || x.Parent == nil || x.Label == "" {
			continue
		}
		if v, err := strconv.ParseFloat(x.Label, 64); err != nil || math.IsNaN(v) || v < 0 || v > 1 {
			o.Fail(algo+":range", "a branch carries the support %q, which is not a number in [0,1]\n%s\n  out %s", x.Label, ctx, text)
			return nil
		}
	}
	for _, x := range om.all() {
		k, ok := keys[x]
		if !ok {
			continue
		}
		w, inner := want[k]
		if x.IsTip() || !inner {
			continue
		}
		v, err := strconv.ParseFloat(x.Label, 64)
		if err != nil {
			o.Fail(algo+":support-missing", "inner branch {%s} carries %q instead of a support\n%s\n  out %s", k, x.Label, ctx, text)
			continue
		}
		if old, dup := got[k]; dup && old != v {
			o.Fail(algo+":root-branches-disagree", "the two root branches of split {%s} carry different supports %v and %v\n%s\n  out %s", k, old, v, ctx, text)
		}
		got[k] = v
		_ = w
	}
	for k := range want {
		if _, ok := got[k]; !ok {
			o.Fail(algo+":split-lost", "no support found for the reference split {%s}\n%s\n  out %s", k, ctx, text)
		}
	}
	return got
}

func execC10(t *testing.T, c any, o *Outcome) {
	pc := c.(*PipeCase)
	fpos, fkind := pc.hasFault()
	refm, err := ParseRef(pc.Ref)
	if err != nil {
		panic("harness: model cannot parse the reference")
	}
	var boots []*RNode
	h := fnv.New64a()
	fmt.Fprint(h, pc.Ref)
	for _, r := range pc.Recs {
		fmt.Fprint(h, r.Text)
		if r.Fault != "" {
			continue
		}
		m, err := ParseRef(r.Text)
		if err != nil {
			panic("harness: model cannot parse a bootstrap tree")
		}
		if len(m.Children) == 2 {
			o.Probe("rooted-bootstrap-tree")
		}
		boots = append(boots, m)
	}
	o.Key = fmt.Sprintf("%016x", h.Sum64())
	if len(refm.Children) == 2 {
		o.Probe("rooted-reference")
	}
	if fkind != "" {
		o.Fault(fkind)
		if fpos == 0 {
			o.Probe("mismatch-first")
		}
		if fpos == len(pc.Recs)-1 {
			o.Probe("mismatch-last")
		}
	}
	results := map[string]map[string]float64{}
	for _, algo := range []string{"fbp", "tbe"} {
		run := *pc
		run.Algo = algo
		cpus, sc := 1, seqSched()
		if algo == pc.Algo {
			cpus, sc = pc.Cpus, pc.Sched
		}
		got := runPipe(t, &run, cpus, sc, 4_000_000)
		o.Steps += int64(got.Sched.Steps)
		what := fmt.Sprintf("%s (%d threads)", algo, cpus)
		if !liveness(o, got, what) {
			continue
		}
		ctx := fmt.Sprintf("  ref   %s\n  boots %s", pc.Ref, recTexts(pc.Recs))
		if fkind != "" {
			if got.Err == nil {
				o.Fail("mismatch-accepted:"+algo+":"+fkind, "%s: bootstrap tree %d of %d has a %s taxon but no error is returned\n%s", what, fpos, len(pc.Recs), fkind, ctx)
			}
			continue
		}
		if got.Err != nil {
			o.Fail(algo+":unexpected-error", "%s: error on bootstrap trees with the reference's taxa: %v\n%s", what, got.Err, ctx)
			continue
		}
		if len(boots) == 0 {
			continue
		}
		want, _ := wantSupports(refm, boots)
		sup := readSupports(o, algo, got.RefOut, want, ctx)
		if sup == nil {
			continue
		}
		results[algo] = sup
		for _, k := range sortedKeys(want) {
			v, ok := sup[k]
			if !ok {
				continue
			}
			w := want[k].fbp
			if algo == "tbe" {
				w = want[k].tbe
			}
			if math.Abs(v-w) > 1e-9 {
				o.Fail(algo+":value", "%s: support of split {%s} (light side %d) is %v, the definition gives %v\n%s\n  out   %s", what, k, want[k].p, v, w, ctx, got.RefOut)
			}
			if v < 0 || v > 1 {
				o.Fail(algo+":range", "%s: support %v of split {%s} outside [0,1]\n%s", what, v, k, ctx)
			}
		}
		if got.TipSup != 0 {
			o.Fail(algo+":tip-support", "%s: %d tip branches carry a support\n%s\n  out   %s", what, got.TipSup, ctx, got.RefOut)
		}
		// same collection in another order and presentation: identical annotated tree
		if len(pc.Recs2) == len(boots) {
			run2 := run
			run2.Recs, run2.Feed = pc.Recs2, "chan"
			got2 := runPipe(t, &run2, 1, seqSched(), 4_000_000)
			o.Steps += int64(got2.Sched.Steps)
			if liveness(o, got2, algo+" (re-ordered, re-presented collection)") {
				if got2.Err != nil {
					o.Fail(algo+":unexpected-error", "%s on the re-ordered collection: %v\n  ref   %s\n  boots %s", algo, got2.Err, pc.Ref, recTexts(pc.Recs2))
				} else {
					// compared split by split: the branch above a root child whose split is trivial (n-1 | 1) is not an inner
					// branch in the sense of the statement and is left out
					sub := &Outcome{}
					sup2 := readSupports(sub, algo, got2.RefOut, want, ctx)
					same := sup2 != nil && len(sub.Viols) == 0 && len(sup2) == len(sup)
					for k, v := range sup {
						if v2, ok := sup2[k]; !ok || v2 != v {
							same = false
						}
					}
					if !same {
						o.Fail(algo+":order-or-presentation-dependent", "%s: supports change with the order / rooting / child order of the bootstrap trees\n  ref    %s\n  boots  %s\n  out    %s\n  boots' %s\n  out'   %s",
							algo, pc.Ref, recTexts(pc.Recs), got.RefOut, recTexts(pc.Recs2), got2.RefOut)
					}
				}
			}
		}
	}
	if pc.Chunk == 1 && fkind == "" && len(o.Viols) == 0 {
		checkSupportCLI(t, o, pc, pc.Algo)
	}
	if f, tb := results["fbp"], results["tbe"]; f != nil && tb != nil {
		for _, k := range sortedKeys(f) {
			fv, tv := f[k], tb[k]
			if _, ok := tb[k]; !ok {
				continue
			}
			if tv < fv-1e-12 {
				o.Fail("tbe-below-fbp", "split {%s}: transfer support %v below Felsenstein support %v\n  ref   %s\n  boots %s", k, tv, fv, pc.Ref, recTexts(pc.Recs))
			}
			if (tv == 1) != (fv == 1) {
				o.Fail("tbe-one-iff-fbp-one", "split {%s}: transfer support %v, Felsenstein support %v\n  ref   %s\n  boots %s", k, tv, fv, pc.Ref, recTexts(pc.Recs))
			}
			if fv == 1 {
				o.Probe("fbp-one")
			}
			if fv == 0 {
				o.Probe("fbp-zero")
			}
			if fv > 0 && fv < 1 && tv > fv && tv < 1 {
				o.Probe("tbe-strictly-between")
				o.Nontrivial = true
			}
		}
	}
}

func recTexts(recs []Rec) string {
	var s []string
	for _, r := range recs {
		if r.Fault != "" {
			s = append(s, "<"+r.Fault+"> "+r.Text)
		} else {
			s = append(s, r.Text)
		}
	}
	return strings.Join(s, " ")
}
