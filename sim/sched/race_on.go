//go:build race

package sched

import "runtime"

const RaceEnabled = true

func raceOff() { runtime.RaceDisable() }
func raceOn()  { runtime.RaceEnable() }
