// Package sched: deterministic goroutine scheduler on top of testing/synctest.
//
// All functions that touch scheduler state are //go:norace and use fixed arrays (no maps, no append on
// shared slices), and every hand-off is bracketed by raceOff/raceOn, so that the Go race detector sees
// the synchronisation of the system under test only.
package sched

import (
	"fmt"
	"runtime"
	"sort"
	"sync"
	"testing"
	"testing/synctest"
	"time"

	"verifhook"
)

const (
	maxG     = 2048
	maxTrace = 1 << 16
)

type Strategy int

const (
	Uniform Strategy = iota
	RunToBlock
	RoundRobin
	PCT
	// Starve: about one goroutine in six (chosen by a hash of its logical id and the schedule seed, never the root) is slow: it only
	// runs when no other goroutine can. Among the others, and among the slow ones when only they are left, the choice is uniform.
	Starve
)

type G struct {
	ID     string
	goid   uint64
	wake   chan struct{}
	site   string
	kind   string
	parked bool
	dead   bool
	locked int
	spawns int
	prio   uint32
	recvs  int
	slow   uint8 // Starve: 0 not decided yet, 1 normal, 2 slow
	// parked waiting for a lock that was held at the last probe: runnable again only after somebody released a lock
	lockwait  bool
	waitEpoch int
}

type Step struct {
	G    string
	Site string
	Kind string
	N    int // size of the choice set
}

type PanicRec struct {
	G     string
	Value string
	Stack string
	Step  int
}

type ExitSentinel struct{ Code int }

type Config struct {
	Strategy   Strategy
	Choices    []uint32 // consumed one per decision with more than one candidate
	SchedSeed  uint64   // decisions beyond len(Choices) come from a generator seeded with it; 0 => choice 0 (lowest id)
	SitePct    uint32   // 0..100: share of "shared"/"stmt" sites enabled (by hash of site and SiteSalt)
	SiteSalt   uint32
	PCTChanges []int // decision indices at which the running highest priority is demoted
	MaxSteps   int
	MapSeed    uint64
	HasMapSeed bool
	Epoch      int64
	KeepTrace  bool
	MaxTicks   int64
	// Preempt lists, in ascending order, the ordinal numbers of the executed statements (of the densely
	// instrumented packages) before which the running goroutine is pre-empted: PCT-style change points
	// inside callee code, at the cost of a counter per statement.
	Preempt []int
	// Quantum > 0: in addition, the running goroutine is pre-empted every Quantum such statements (time slicing
	// by a logical clock: what a pre-emptive scheduler does, but replayable).
	Quantum int
}

type Result struct {
	Deadlock   bool
	Budget     bool
	TickBudget bool
	Steps      int
	Switches   int
	Hash       uint64
	Trace      []Step
	Panics     []PanicRec
	Exit       *ExitSentinel
	Blocked    []string // goroutines alive but not parked at deadlock (or leaked after the body returned)
	Anon       int
	Ticks      int64
	KindCount  map[string]int
	Busy       int // goroutines other than the root that received at least one item from a channel
	Goroutines int
	Stmts      int // statements executed in the densely instrumented packages
	Preempted  int // pre-emptions that fired at such statements
}

type Sched struct {
	cfg       Config
	mu        sync.Mutex
	gs        [maxG]*G
	ng        int
	pending   [maxG]*G // spawned, not yet started
	npend     int
	ci        int
	last      *G
	rr        int
	steps     int
	sw        int
	hash      uint64
	trace     []Step
	ntrace    int
	panics    [16]PanicRec
	npanic    int
	exit      *ExitSentinel
	anon      int
	ticks     int64
	tickHit   bool
	pcount    int
	pidx      int
	pfired    int
	avoid     *G
	unlocks   int
	tickPause bool
	kinds     [16]struct {
		k string
		n int
	}
	nkinds int
}

//go:norace
func goid() uint64 {
	var buf [64]byte
	n := runtime.Stack(buf[:], false)
	var id uint64
	for _, c := range buf[len("goroutine "):n] {
		if c < '0' || c > '9' {
			break
		}
		id = id*10 + uint64(c-'0')
	}
	return id
}

//go:norace
func (s *Sched) self() *G {
	id := goid()
	s.mu.Lock()
	for i := 0; i < s.ng; i++ {
		if s.gs[i].goid == id && !s.gs[i].dead {
			g := s.gs[i]
			s.mu.Unlock()
			return g
		}
	}
	// unknown goroutine (not started through an instrumented go statement)
	s.anon++
	g := &G{ID: fmt.Sprintf("anon%d", s.anon), goid: id, wake: make(chan struct{})}
	s.gs[s.ng] = g
	s.ng++
	s.mu.Unlock()
	return g
}

//go:norace
func fnv(h uint64, s string) uint64 {
	for i := 0; i < len(s); i++ {
		h = (h ^ uint64(s[i])) * 1099511628211
	}
	return h
}

//go:norace
func (s *Sched) siteEnabled(site, kind string) bool {
	switch kind {
	case "shared", "sharedw", "stmt":
		if s.cfg.SitePct >= 100 {
			return true
		}
		h := fnv(fnv(14695981039346656037, site), kind) ^ uint64(s.cfg.SiteSalt)*0x9E3779B97F4A7C15
		h ^= h >> 29
		return uint32(h%100) < s.cfg.SitePct
	}
	return true
}

//go:norace
func (s *Sched) park(g *G, site, kind string) {
	raceOff()
	s.mu.Lock()
	g.site, g.kind, g.parked = site, kind, true
	s.mu.Unlock()
	<-g.wake
	raceOn()
}

//go:norace
func (s *Sched) Yield(site, kind string) {
	if len(kind) == 5 && kind[0] == 'p' { // "pstmt": counted pre-emption point
		s.pcount++
		if !(s.cfg.Quantum > 0 && s.pcount%s.cfg.Quantum == 0) && (s.pidx >= len(s.cfg.Preempt) || s.pcount < s.cfg.Preempt[s.pidx]) {
			return
		}
		g := s.self()
		for s.pidx < len(s.cfg.Preempt) && s.cfg.Preempt[s.pidx] <= s.pcount {
			s.pidx++
		}
		s.pfired++
		s.avoid = g
		s.park(g, site, kind)
		return
	}
	g := s.self()
	if kind == "lockwait" {
		g.lockwait, g.waitEpoch = true, s.unlocks
		s.park(g, site, kind)
		g.lockwait = false
		return
	}
	// (a goroutine may be parked inside a critical section: every lock acquisition of the instrumented code waits parked behind
	// a TryLock probe, so nobody blocks for real on the lock it holds)
	if !s.siteEnabled(site, kind) {
		return
	}
	s.park(g, site, kind)
}

//go:norace
func (s *Sched) Spawn(site string) int {
	p := s.self()
	raceOff()
	s.mu.Lock()
	p.spawns++
	if s.npend >= maxG || s.ng >= maxG-1 {
		// not a verdict about the code under test: the simulator cannot follow this many goroutines
		s.mu.Unlock()
		raceOn()
		panic("harness: more goroutines than the simulator follows (limit 2048)")
	}
	g := &G{ID: p.ID + "." + itoa(p.spawns), wake: make(chan struct{})}
	idx := s.npend
	s.pending[idx] = g
	s.npend++
	s.mu.Unlock()
	raceOn()
	return idx
}

//go:norace
func itoa(i int) string {
	if i == 0 {
		return "0"
	}
	var b [20]byte
	n := len(b)
	for i > 0 {
		n--
		b[n] = byte('0' + i%10)
		i /= 10
	}
	return string(b[n:])
}

//go:norace
func (s *Sched) GoStart(idx int) {
	id := goid()
	raceOff()
	s.mu.Lock()
	g := s.pending[idx]
	g.goid = id
	s.gs[s.ng] = g
	s.ng++
	s.mu.Unlock()
	raceOn()
	s.park(g, "gostart", "start")
}

// StartRoot registers the calling goroutine under a fixed id and parks it.
//
//go:norace
func (s *Sched) StartRoot(id string) {
	gid := goid()
	raceOff()
	s.mu.Lock()
	g := &G{ID: id, goid: gid, wake: make(chan struct{})}
	s.gs[s.ng] = g
	s.ng++
	s.mu.Unlock()
	raceOn()
	s.park(g, "gostart", "start")
}

//go:norace
func (s *Sched) GoEnd() {
	g := s.self()
	raceOff()
	s.mu.Lock()
	g.dead = true
	s.mu.Unlock()
	raceOn()
}

//go:norace
func (s *Sched) Panicked(v any, stack []byte) {
	if es, ok := v.(ExitSentinel); ok {
		s.exit = &es
		return
	}
	g := s.self()
	if s.npanic < len(s.panics) {
		s.panics[s.npanic] = PanicRec{G: g.ID, Value: fmt.Sprint(v), Stack: string(stack), Step: s.steps}
		s.npanic++
	}
}

//go:norace
func (s *Sched) Locked(d int) {
	s.self().locked += d
	if d < 0 {
		s.unlocks++
	}
}

// Scheduling: this simulator decides which goroutine runs (lock acquisitions wait parked, see the instrumenter).
func (s *Sched) Scheduling() bool { return true }

func (s *Sched) Now() time.Time { return time.Unix(s.cfg.Epoch, 0).UTC() }
func (s *Sched) Exit(code int)  { panic(ExitSentinel{code}) }

// PauseTicks suspends the logical loop budget (used by the harness while it exercises a delivered tree:
// the budget is about the readers).
//
//go:norace
func (s *Sched) PauseTicks(b bool) { s.tickPause = b }

//go:norace
func (s *Sched) Tick() {
	if s.tickPause {
		return
	}
	s.ticks++
	if s.cfg.MaxTicks > 0 && s.ticks > s.cfg.MaxTicks {
		s.tickHit = true
		panic("verif: logical step budget exceeded (loop does not terminate)")
	}
}
func (s *Sched) MapSeed() (uint64, bool) { return s.cfg.MapSeed, s.cfg.HasMapSeed }

//go:norace
func (s *Sched) nextChoice(n int) int {
	if n <= 1 {
		return 0
	}
	var c uint32
	if s.ci < len(s.cfg.Choices) {
		c = s.cfg.Choices[s.ci]
	} else if s.cfg.SchedSeed != 0 {
		x := s.cfg.SchedSeed + uint64(s.ci)*0x9E3779B97F4A7C15
		x ^= x >> 30
		x *= 0xBF58476D1CE4E5B9
		x ^= x >> 27
		x *= 0x94D049BB133111EB
		x ^= x >> 31
		c = uint32(x >> 16)
	}
	s.ci++
	return int(c % uint32(n))
}

//go:norace
func (s *Sched) countKind(k string) {
	for i := 0; i < s.nkinds; i++ {
		if s.kinds[i].k == k {
			s.kinds[i].n++
			return
		}
	}
	if s.nkinds < len(s.kinds) {
		s.kinds[s.nkinds].k = k
		s.kinds[s.nkinds].n = 1
		s.nkinds++
	}
}

// loop runs decisions until done is closed, a deadlock is found or the budget is exhausted.
//
//go:norace
func (s *Sched) loop(done chan struct{}) (deadlock, budget bool, blocked []string) {
	raceOff()
	defer raceOn()
	var cand [maxG]*G
	finished := false
	for {
		synctest.Wait()
		if !finished {
			select {
			case <-done:
				finished = true
			default:
			}
		}
		if s.npanic > 0 || s.exit != nil || s.tickHit {
			return
		}
		s.mu.Lock()
		n := 0
		for i := 0; i < s.ng; i++ {
			if g := s.gs[i]; g.parked && !g.dead && !(g.lockwait && g.waitEpoch == s.unlocks) {
				cand[n] = g
				n++
			}
		}
		if n == 0 {
			for i := 0; i < s.ng; i++ {
				if g := s.gs[i]; !g.dead {
					blocked = append(blocked, g.ID+"@"+g.site+"/"+g.kind)
				}
			}
			s.mu.Unlock()
			if finished {
				// body returned and nothing is runnable: goroutines still alive are leaks, not a hang
				return false, false, blocked
			}
			return true, false, blocked
		}
		// canonical order by logical id (insertion sort; n is small)
		if n <= 32 {
			for i := 1; i < n; i++ {
				for j := i; j > 0 && cand[j].ID < cand[j-1].ID; j-- {
					cand[j], cand[j-1] = cand[j-1], cand[j]
				}
			}
		} else {
			sort.Slice(cand[:n], func(i, j int) bool { return cand[i].ID < cand[j].ID })
		}
		// after a counted pre-emption somebody else runs, if anybody else can
		if s.avoid != nil {
			if n > 1 {
				k := 0
				for i := 0; i < n; i++ {
					if cand[i] != s.avoid {
						cand[k] = cand[i]
						k++
					}
				}
				n = k
			}
			if s.last == s.avoid {
				s.last = nil
			}
			s.avoid = nil
		}
		var pick *G
		switch s.cfg.Strategy {
		case RunToBlock:
			for i := 0; i < n; i++ {
				if cand[i] == s.last {
					pick = cand[i]
				}
			}
			if pick == nil {
				pick = cand[s.nextChoice(n)]
			}
		case RoundRobin:
			s.rr++
			pick = cand[s.rr%n]
		case PCT:
			for _, cp := range s.cfg.PCTChanges {
				if cp == s.steps && s.last != nil {
					s.last.prio = 0
				}
			}
			for i := 0; i < n; i++ {
				if cand[i].prio == 0 {
					cand[i].prio = 1 + uint32(s.nextChoice(1<<20))
				}
				if pick == nil || cand[i].prio > pick.prio {
					pick = cand[i]
				}
			}
		case Starve:
			k := 0
			for i := 0; i < n; i++ {
				g := cand[i]
				if g.slow == 0 {
					g.slow = 1
					if s.ng > 0 && g != s.gs[0] && fnv(s.cfg.SchedSeed^0x51ED27, g.ID)%6 == 0 {
						g.slow = 2
					}
				}
				if g.slow == 1 {
					cand[k], cand[i] = cand[i], cand[k]
					k++
				}
			}
			if k > 0 {
				n = k
			}
			pick = cand[s.nextChoice(n)]
		default:
			pick = cand[s.nextChoice(n)]
		}
		pick.parked = false
		if s.last != nil && s.last != pick {
			s.sw++
		}
		s.last = pick
		s.steps++
		s.hash = fnv(fnv(fnv(s.hash^0x9E37, pick.ID), pick.site), pick.kind)
		s.countKind(pick.kind)
		if pick.kind == "recv" {
			pick.recvs++
		}
		if s.cfg.KeepTrace && s.ntrace < maxTrace {
			s.trace[s.ntrace] = Step{pick.ID, pick.site, pick.kind, n}
			s.ntrace++
		}
		// the budget is about decisions the system asks for; pre-emptions injected by the simulator are bounded by the statement count
		over := s.cfg.MaxSteps > 0 && s.steps-s.pfired > s.cfg.MaxSteps
		s.mu.Unlock()
		if over {
			return false, true, nil
		}
		pick.wake <- struct{}{}
	}
}

// Run executes body as goroutine "0" of a fresh bubble under the scheduler.
func Run(t *testing.T, cfg Config, body func()) (res Result) {
	s := &Sched{cfg: cfg}
	if cfg.KeepTrace {
		s.trace = make([]Step, maxTrace)
	}
	defer func() {
		// end-of-bubble panic when blocked goroutines remain (after a deadlock verdict or a leak)
		if p := recover(); p != nil {
			if msg := fmt.Sprint(p); len(msg) < 8 || msg[:8] != "deadlock" {
				panic(p)
			}
		}
		// goroutines of an aborted run (budget, deadlock) may still be parked and have read the global without a happens-before
		// edge to this write; the race detector reports it in the -race binary and the driver recognises the pair (this function
		// against a verifhook frame) as the simulator's own
		verifhook.Sim = nil
		res.Steps, res.Switches, res.Hash, res.Anon, res.Ticks = s.steps, s.sw, s.hash, s.anon, s.ticks
		res.Trace = s.trace[:s.ntrace]
		res.Panics = append([]PanicRec(nil), s.panics[:s.npanic]...)
		res.Exit = s.exit
		res.TickBudget = s.tickHit
		for i := 0; i < s.ng; i++ {
			if s.gs[i].recvs > 0 && s.gs[i].ID != "0" {
				res.Busy++
			}
		}
		res.Goroutines = s.ng
		res.Stmts, res.Preempted = s.pcount, s.pfired
		res.KindCount = map[string]int{}
		for i := 0; i < s.nkinds; i++ {
			res.KindCount[s.kinds[i].k] = s.kinds[i].n
		}
	}()
	synctest.Test(t, func(t *testing.T) {
		verifhook.Sim = s
		done := make(chan struct{})
		handoff := make(chan struct{}) // real synchronisation for the harness' own results
		go func() {
			defer verifhook.GoEnd()
			defer func() {
				raceOff()
				close(done)
				raceOn()
				close(handoff)
			}()
			s.StartRoot("0")
			body()
		}()
		res.Deadlock, res.Budget, res.Blocked = s.loop(done)
		if !res.Deadlock && !res.Budget && s.npanic == 0 && s.exit == nil && !s.tickHit {
			<-handoff
		}
	})
	for i := 0; i < s.npanic; i++ {
		if v := s.panics[i].Value; len(v) > 8 && v[:8] == "harness:" {
			panic(v) // a limit of the simulator, not a verdict about the code under test: the worker stops (exit 2)
		}
	}
	return
}
