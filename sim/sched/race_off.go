//go:build !race

package sched

const RaceEnabled = false

func raceOff() {}
func raceOn()  {}
