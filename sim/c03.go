package sim

// C03 — every successful edit leaves a well-formed tree. Engine histsim.

import (
	"fmt"
	"strings"
	"testing"

	"pgregory.net/rapid"
)

func init() {
	Register(&Engine{
		Name: "c03", Prop: "C03",
		Rule: "case = (start tree of 3..12 tips from the harness' own generator: rooted or not, degree 2..5, lengths none / all / partly, supports, comments; " +
			"history of 1..30 steps over 33 public editing operations with state-relative arguments: re-rooting at every inner node / first / midpoint / outgroup " +
			"(random sets, clades, ±remove, ±strict), unroot, prune (±revert, absent names), collapse by length / support / depth, RemoveEdges, CollapseClade, resolve, " +
			"rotate, sort, RemoveSingleNodes, clone, subtree, NNI apply and apply+undo, InsertIdenticalTips, graft, merge, Rename / RenameAuto / RenameRegexp, shuffle, " +
			"re-index, clear lengths / supports / comments, scale, round; the PRNG seam is seeded per step). After every step that reports success the structural " +
			"checker over the public traversal API and the comparison of the written Newick with the walked structure (independent reader) are evaluated. A failed " +
			"step (error, panic, exit) poisons the state: the run continues from the last good text. Non-trivial: ≥ 2 successful structure-changing steps; " +
			"distinct = distinct (start-shape class, sequence of successful operation kinds)",
		Gen: func(rt *rapid.T, tier string) any {
			return &HistCase{Start: genTreeText(rt, "t", 3, 12, true), Ops: genOps(rt, histOps, 1, 30)}
		},
		New:       func() any { return &HistCase{} },
		Exec:      func(t *testing.T, c any, o *Outcome) { execHist(c.(*HistCase), o, false) },
		Real:      []string{"all public editing operations of package tree", "Newick writer", "newick parser (start trees)", "Tree traversal API"},
		Simulated: []string{"the operation history (operations, arguments, order)", "global math/rand seam seeded per step"},
		Expected: []string{"op-ok:reroot", "op-ok:outgroup", "op-ok:prune", "op-ok:collapsedepth", "op-ok:removeedges", "op-ok:resolve", "op-ok:nniapply", "op-ok:insertidentical",
			"op-ok:graft", "op-ok:merge", "op-ok:subtree", "op-ok:removesingle", "op-ok:midpoint", "op-ok:collapseclade", "single-child-node-present", "op-failed"},
	})
}

// execHist runs a history; withIndexes additionally evaluates the C04 index oracle after every successful step.
func execHist(c *HistCase, o *Outcome, withIndexes bool) {
	prop := "C03"
	if withIndexes {
		prop = "C04"
	}
	var st *histState
	if !guard(o, "start", func() { st = &histState{t: mustParse(c.Start), text: c.Start} }) {
		return
	}
	hist := []string{"start " + c.Start}
	check := func(after string) bool {
		var d string
		ok := guard(o, "check", func() {
			w, dd := CheckStructure(st.t)
			if dd == "" {
				_, dd = TextAgrees(st.t, w)
			}
			d = dd
		})
		if !ok {
			return false
		}
		if d != "" && !withIndexes {
			o.Fail("ill-formed:"+defectClass(d), "%s violated after %d steps (last: "+after+"): %s\nhistory:\n  %s\ntext now: %s", prop, len(hist)-1, d, strings.Join(hist, "\n  "), safeText(st.t))
			return false
		}
		if withIndexes {
			var d4 string
			if !guard(o, "index-check", func() { d4 = CheckIndexes(st.t) }) {
				return false
			}
			if d4 != "" {
				o.Fail("stale-index:"+defectClass(d4), "C04 violated after %d steps (last: "+after+"): %s\nhistory:\n  %s\ntext now: %s", len(hist)-1, d4, strings.Join(hist, "\n  "), safeText(st.t))
				return false
			}
		}
		return d == ""
	}
	if !check("start") {
		return
	}
	var kinds []string
	nstruct := 0
	for _, op := range c.Ops {
		desc, err := safeApply(st, op)
		if desc == opSkip {
			continue
		}
		o.Steps++
		if err != nil {
			o.Probe("op-failed")
			if _, isPanic := err.(opPanic); isPanic {
				o.Probe("op-panicked:" + op.Op)
			}
			hist = append(hist, desc+" -> "+err.Error()+" (state restored from the last good text)")
			if !guard(o, "restore", func() { st.t = mustParse(st.text) }) {
				return
			}
			continue
		}
		hist = append(hist, desc)
		o.Probe("op-ok:" + op.Op)
		kinds = append(kinds, op.Op)
		if structOps[op.Op] {
			nstruct++
		}
		if hasSingleInner(st.t) {
			o.Probe("single-child-node-present")
		}
		if !check(op.Op) {
			return
		}
		if len(st.t.Tips()) < 3 {
			break
		}
		st.text = st.t.Newick()
	}
	o.Nontrivial = nstruct >= 2
	m, _ := ParseRef(c.Start)
	class := "?"
	if m != nil {
		class = fmt.Sprintf("%dtips/rootdeg%d", len(m.Tips()), len(m.Children))
	}
	o.Key = class + "/" + strings.Join(kinds, ",")
}

// defectClass maps a checker message to a stable class name (first words, no names or numbers).
func defectClass(d string) string {
	d = strings.ToLower(d)
	for _, k := range []string{"cycle", "asymmetric adjacency", "points towards the root", "neighbours but", "does not join", "two different branches", "reached twice", "sees its parent",
		"nodes()", "tips()", "edges():", "internaledges()+tipedges()", "internaledges() contains", "tipedges() contains", "do not partition", "not newick", "children in the tree",
		"name", "length", "tipindex", "counts", "topodepth", "bitset width", "bit of", "nil root", "depth overflow"} {
		if strings.Contains(d, k) {
			return strings.NewReplacer(" ", "-", "(", "", ")", "", ":", "", "+", "-").Replace(k)
		}
	}
	if len(d) > 30 {
		d = d[:30]
	}
	return slug(d)
}
