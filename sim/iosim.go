package sim

// Simulated byte streams (engine iosim) and the non-scheduling simulator used for single-threaded calls.

import (
	"errors"
	"io"
	"time"

	"sim/sched"
)

var errEIO = errors.New("simulated read error (EIO)")

// SimReader delivers Data[:Limit] according to a chunk plan; after the end it returns EndErr forever
// and counts those calls (a parser that keeps reading after the end of input loops forever).
type SimReader struct {
	Data        []byte
	Limit       int
	Chunk       int   // fixed chunk size when Chunks is empty
	Chunks      []int // cyclic plan of read sizes; 0 = a legal (0, nil) read
	EndErr      error // io.EOF or a non-EOF error
	ErrWithData bool  // deliver the last bytes together with the error
	pos, call   int
	PostEOF     int
	Reads       int
	ZeroReads   int
	ended       bool
	lastZero    bool
}

type hangSentinel struct{}
type tickSentinel struct{}

func (hangSentinel) String() string {
	return "verif: the reader keeps reading after the end of input (endless loop)"
}

const postEOFLimit = 10000

func (r *SimReader) Read(p []byte) (int, error) {
	r.Reads++
	if len(p) == 0 {
		return 0, nil
	}
	if r.pos >= r.Limit {
		if r.ended {
			r.PostEOF++
			if r.PostEOF > postEOFLimit {
				panic(hangSentinel{})
			}
		}
		r.ended = true
		err := r.EndErr
		if err == nil {
			err = io.EOF
		}
		return 0, err
	}
	n := r.Chunk
	if len(r.Chunks) > 0 {
		n = r.Chunks[r.call%len(r.Chunks)]
		r.call++
		if n == 0 && !r.lastZero {
			// at most one zero read in a row: a Reader that returns (0, nil) forever is broken, not faulty
			r.ZeroReads++
			r.lastZero = true
			return 0, nil
		}
		r.lastZero = false
		if n == 0 {
			n = 1
		}
	}
	if n <= 0 {
		n = 4096
	}
	if n > len(p) {
		n = len(p)
	}
	if n > r.Limit-r.pos {
		n = r.Limit - r.pos
	}
	copy(p, r.Data[r.pos:r.pos+n])
	r.pos += n
	if r.pos >= r.Limit && r.ErrWithData {
		r.ended = true
		err := r.EndErr
		if err == nil {
			err = io.EOF
		}
		return n, err
	}
	return n, nil
}

// FiredInside reports whether the end (truncation / error) happened before the end of the document.
func (r *SimReader) FiredInside() bool { return r.ended && r.Limit < len(r.Data) }

// plainSim implements verifhook.Simulator for calls that start no goroutine: seams and logical step
// budget only.
// needsScheduler is thrown by a plainSim in noGoroutines mode when the code under test is about to start a goroutine: the caller
// then repeats the case inside the scheduler (a goroutine that never finishes must show as a deadlock, not as a real hang).
type needsScheduler struct{ site string }

type plainSim struct {
	noGoroutines bool
	paused       bool
	ticks, max   int64
	mapSeed      uint64
	hasMapSeed   bool
	epoch        int64
}

// lockSentinel: with a single goroutine, a lock that is found held will never be released.
type lockSentinel struct{ site string }

func (p *plainSim) Yield(site, kind string) {
	if kind == "lockwait" && p.noGoroutines {
		panic(lockSentinel{site})
	}
}

// Scheduling makes the instrumented lock sites probe the lock (TryLock) before taking it, see Yield.
func (p *plainSim) Scheduling() bool { return p.noGoroutines }
func (p *plainSim) Spawn(site string) int {
	if p.noGoroutines {
		panic(needsScheduler{site})
	}
	return 0
}
func (p *plainSim) GoStart(id int)               {}
func (p *plainSim) GoEnd()                       {}
func (p *plainSim) Panicked(v any, stack []byte) {}
func (p *plainSim) Locked(d int)                 {}
func (p *plainSim) Now() time.Time               { return time.Unix(p.epoch, 0).UTC() }
func (p *plainSim) Exit(code int)                { panic(sched.ExitSentinel{Code: code}) }
func (p *plainSim) PauseTicks(b bool)            { p.paused = b }
func (p *plainSim) Tick() {
	if p.paused {
		return
	}
	p.ticks++
	if p.max > 0 && p.ticks > p.max {
		panic(tickSentinel{})
	}
}
func (p *plainSim) MapSeed() (uint64, bool) { return p.mapSeed, p.hasMapSeed }
