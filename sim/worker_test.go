package sim

import (
	"testing"

	"sim/sched"
)

// TestWorker is the single entry point of the worker processes started by /verif/check.
func TestWorker(t *testing.T) { RunWorker(t, sched.RaceEnabled) }
