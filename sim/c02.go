package sim

// C02 — tree readers are total: never crash, never hang.
// Engine iosim: the byte stream is simulated (truncation at every offset, mutations, chunk plans, buffer
// sizes, read errors), the multi-tree reader goroutine runs under the deterministic scheduler.

import (
	"bufio"
	"fmt"
	"hash/fnv"
	"io"
	"strings"
	"testing"

	"github.com/evolbioinfo/gotree/io/newick"
	"github.com/evolbioinfo/gotree/io/nextstrain"
	"github.com/evolbioinfo/gotree/io/nexus"
	"github.com/evolbioinfo/gotree/io/phyloxml"
	"github.com/evolbioinfo/gotree/io/utils"
	"github.com/evolbioinfo/gotree/tree"
	"pgregory.net/rapid"
	"sim/sched"
	"verifhook"
)

type IOCase struct {
	Format      string    `json:"format"` // newick, multi, nexus, phyloxml, nextstrain
	Entry       string    `json:"entry"`  // parse (the format's own parser), single (ReadTreeReader), multi (ReadMultiTrees)
	Base        string    `json:"base"`   // name of the base document and the mutations applied (informational)
	Doc         string    `json:"doc"`    // the document after mutation, bytes as a Go string
	Nest        int       `json:"nest,omitempty"`
	NestKind    int       `json:"nestkind,omitempty"`
	Limit       int       `json:"limit"` // bytes delivered before the stream ends (-1: all of them)
	EndErr      string    `json:"enderr"`
	ErrWithData bool      `json:"errwithdata,omitempty"`
	Chunks      []int     `json:"chunks"`
	BufSz       int       `json:"bufsz"`
	Sched       SchedCase `json:"sched"`
}

func init() {
	Register(&Engine{
		Name: "c02", Prop: "C02",
		Rule: "enumerated part (both tiers): every base document of sim/corpus.go (single Newick, multi-tree streams, Nexus, PhyloXML, Nextstrain) × truncation after k bytes " +
			"for EVERY k × {EOF, read error} × chunk plans {1 byte, 7 bytes, whole} × every reader entry point of the format (own parser, ReadTreeReader, " +
			"ReadMultiTrees with its real goroutine under the scheduler), bufio size 16; thorough tier also enumerates every single-byte substitution by each of 20 structural " +
			"bytes and every single-byte deletion at every offset of every base document. Sampled part: base or generated document × 0..3 mutations (byte flip, " +
			"structural byte insertion, deletion, duplication, splice of another document; biased to structural bytes) × optional truncation × chunk plan " +
			"(incl. zero-length reads) × bufio size {16,17,64,4096,65536} × error delivered with or after the last bytes; deep nesting up to 10^5. Every " +
			"delivered tree is traversed, indexed, written (Newick, Nexus, PhyloXML) and cloned. Non-trivial: the fault fired inside the document or the " +
			"document was mutated; distinct = distinct (format, entry point, outcome class, document hash, truncation point)",
		Gen:     genC02,
		New:     func() any { return &IOCase{} },
		Exec:    execC02,
		Enum:    enumC02,
		Isolate: true,
		Real: []string{"newick.Parser", "nexus.Parser", "phyloxml.Parser", "nextstrain.Parser", "fileutils.ReadUntilSemiColon", "utils.ReadTreeReader", "utils.ReadMultiTrees reader goroutine",
			"bufio", "encoding/xml", "encoding/json", "Tree traversal / ReinitIndexes / Newick / Nexus / WritePhyloXML / Clone"},
		Simulated: []string{"the input byte stream: truncation point, read error, chunk sizes, zero-length reads, buffer size", "reader goroutine vs. consumer schedule",
			"logical loop budget (ticks at loop heads of io/...) and post-EOF read counter instead of a wall clock"},
		Expected: []string{"outcome:trees", "outcome:error", "isprefix-path", "zero-read", "error-with-data", "trunc-inside", "eio-inside", "deep-nesting", "multi-delivered-then-error"},
	})
}

var ioEntries = map[string][]string{
	"newick":     {"parse", "single", "multi"},
	"multi":      {"parse", "single", "multi"},
	"nexus":      {"parse", "single", "multi"},
	"phyloxml":   {"parse", "single", "multi"},
	"nextstrain": {"parse", "single", "multi"},
}

func formatConst(f string) int {
	switch f {
	case "nexus":
		return utils.FORMAT_NEXUS
	case "phyloxml":
		return utils.FORMAT_PHYLOXML
	case "nextstrain":
		return utils.FORMAT_NEXTSTRAIN
	}
	return utils.FORMAT_NEWICK
}

func enumC02(tier string, batch, nbatch int) []any {
	var out []any
	i := 0
	for _, d := range corpus {
		for _, entry := range ioEntries[d.Format] {
			chunkPlans := [][]int{{4096}, {1}, {7}}
			if entry == "multi" {
				chunkPlans = [][]int{{4096}, {1}}
			}
			for k := 0; k <= len(d.Text); k++ {
				for _, ee := range []string{"eof", "eio"} {
					for _, ch := range chunkPlans {
						if i%nbatch == batch {
							out = append(out, &IOCase{Format: d.Format, Entry: entry, Base: d.Name, Doc: d.Text, Limit: k, EndErr: ee, Chunks: ch, BufSz: 16,
								Sched: SchedCase{Strategy: i % 3, Seed: uint64(i)}})
						}
						i++
					}
				}
			}
		}
	}
	if tier == "thorough" {
		// second enumerated family: every single-byte substitution by a structural byte, and every single-byte deletion, at every offset
		subst := []byte("()[],:;='\"<>{}/ \n&-0")
		for _, d := range corpus {
			for _, entry := range ioEntries[d.Format] {
				if entry == "multi" && d.Format != "multi" && d.Format != "newick" {
					continue // the multi entry of the other formats differs from "single" only after parsing
				}
				for k := 0; k < len(d.Text); k++ {
					for si := -1; si < len(subst); si++ {
						if si >= 0 && subst[si] == d.Text[k] {
							continue
						}
						if i%nbatch == batch {
							doc := d.Text[:k] + d.Text[k+1:]
							base := fmt.Sprintf("%s+delete@%d/1", d.Name, k)
							if si >= 0 {
								doc = d.Text[:k] + string(subst[si]) + d.Text[k+1:]
								base = fmt.Sprintf("%s+flip@%d=%q", d.Name, k, subst[si])
							}
							out = append(out, &IOCase{Format: d.Format, Entry: entry, Base: base, Doc: doc, Limit: -1, EndErr: "eof", Chunks: []int{4096}, BufSz: 64,
								Sched: SchedCase{Strategy: 1}})
						}
						i++
					}
				}
			}
		}
	}
	return out
}

var structural = []byte("()[],:;='\"<>{}/ \n\r\t&#-.0eE")

func genC02(rt *rapid.T, tier string) any {
	r := rapidRnd{rt}
	c := &IOCase{Limit: -1}
	kind := rapid.IntRange(0, 9).Draw(rt, "dockind")
	var doc []byte
	switch {
	case kind == 0:
		// deep nesting
		depths := []int{1000, 5000, 20000}
		if tier == "thorough" {
			depths = append(depths, 100000)
		}
		c.Format = rapid.SampledFrom([]string{"newick", "multi", "nexus"}).Draw(rt, "format")
		c.Nest = rapid.SampledFrom(depths).Draw(rt, "depth")
		c.NestKind = rapid.IntRange(0, 3).Draw(rt, "nestkind")
		c.Base = fmt.Sprintf("nest(%d,%d)", c.Nest, c.NestKind)
	case kind <= 2:
		// generated document from a model tree
		tx := taxa(rapid.IntRange(3, 9).Draw(rt, "ntax"), "t")
		var texts []string
		for i := rapid.IntRange(1, 4).Draw(rt, "ntrees"); i > 0; i-- {
			texts = append(texts, RandomTree(tx, r, rapid.IntRange(2, 4).Draw(rt, "maxdeg"), rapid.Bool().Draw(rt, "len")).Newick())
		}
		c.Format = rapid.SampledFrom([]string{"multi", "nexus"}).Draw(rt, "format")
		c.Base = "generated"
		if c.Format == "multi" {
			doc = []byte(strings.Join(texts, "\n") + "\n")
		} else {
			var b strings.Builder
			b.WriteString("#NEXUS\nBEGIN TAXA;\n DIMENSIONS NTAX=" + fmt.Sprint(len(tx)) + ";\n TAXLABELS " + strings.Join(tx, " ") + ";\nEND;\nBEGIN TREES;\n")
			for i, t := range texts {
				fmt.Fprintf(&b, "TREE tree%d = %s\n", i, t)
			}
			b.WriteString("END;\n")
			doc = []byte(b.String())
		}
	default:
		d := corpus[rapid.IntRange(0, len(corpus)-1).Draw(rt, "doc")]
		c.Format, c.Base, doc = d.Format, d.Name, []byte(d.Text)
	}
	if c.Nest == 0 {
		nmut := rapid.IntRange(0, 3).Draw(rt, "nmut")
		for m := 0; m < nmut && len(doc) > 0; m++ {
			pos := rapid.IntRange(0, len(doc)-1).Draw(rt, "pos")
			if rapid.IntRange(0, 9).Draw(rt, "bias") < 7 {
				// move to the next structural byte
				for j := 0; j < len(doc); j++ {
					if strings.IndexByte(string(structural[:16]), doc[(pos+j)%len(doc)]) >= 0 {
						pos = (pos + j) % len(doc)
						break
					}
				}
				pos += rapid.IntRange(0, 1).Draw(rt, "after")
				if pos >= len(doc) {
					pos = len(doc) - 1
				}
			}
			switch rapid.IntRange(0, 6).Draw(rt, "mutkind") {
			case 6:
				// replace the next run of digits by an extreme number
				i := pos
				for i < len(doc) && (doc[i] < '0' || doc[i] > '9') {
					i++
				}
				j := i
				for j < len(doc) && doc[j] >= '0' && doc[j] <= '9' {
					j++
				}
				if i < len(doc) {
					big := rapid.SampledFrom([]string{"99999999999999999999", "1000000000000", "18446744073709551616", "-1", "0", "1e999", "4611686018427387904", "00000000000000000000000000000001"}).Draw(rt, "bignum")
					doc = append(doc[:i:i], append([]byte(big), doc[j:]...)...)
					c.Base += fmt.Sprintf("+bignum@%d", i)
				}
			case 0:
				b := rapid.SampledFrom(structural).Draw(rt, "byte")
				if rapid.IntRange(0, 4).Draw(rt, "anybyte") == 0 {
					b = byte(rapid.IntRange(0, 255).Draw(rt, "rawbyte"))
				}
				doc[pos] = b
				c.Base += fmt.Sprintf("+flip@%d", pos)
			case 1:
				b := rapid.SampledFrom(structural).Draw(rt, "byte")
				doc = append(doc[:pos:pos], append([]byte{b}, doc[pos:]...)...)
				c.Base += fmt.Sprintf("+insert@%d", pos)
			case 2:
				n := rapid.IntRange(1, 8).Draw(rt, "ndel")
				if pos+n > len(doc) {
					n = len(doc) - pos
				}
				doc = append(doc[:pos:pos], doc[pos+n:]...)
				c.Base += fmt.Sprintf("+delete@%d/%d", pos, n)
			case 3:
				n := rapid.IntRange(1, 40).Draw(rt, "ndup")
				if pos+n > len(doc) {
					n = len(doc) - pos
				}
				doc = append(doc[:pos+n:pos+n], doc[pos:]...)
				c.Base += fmt.Sprintf("+dup@%d/%d", pos, n)
			case 4:
				o := corpus[rapid.IntRange(0, len(corpus)-1).Draw(rt, "other")].Text
				a := rapid.IntRange(0, len(o)-1).Draw(rt, "from")
				n := rapid.IntRange(1, 60).Draw(rt, "nsplice")
				if a+n > len(o) {
					n = len(o) - a
				}
				doc = append(doc[:pos:pos], append([]byte(o[a:a+n]), doc[pos:]...)...)
				c.Base += fmt.Sprintf("+splice@%d", pos)
			case 5:
				n := rapid.IntRange(1, 30).Draw(rt, "nrep")
				b := rapid.SampledFrom([]byte("([,;:'\n ")).Draw(rt, "repbyte")
				doc = append(doc[:pos:pos], append([]byte(strings.Repeat(string(b), n)), doc[pos:]...)...)
				c.Base += fmt.Sprintf("+repeat@%d", pos)
			}
		}
		c.Doc = string(doc)
		if rapid.IntRange(0, 2).Draw(rt, "trunc") == 0 && len(doc) > 0 {
			c.Limit = rapid.IntRange(0, len(doc)).Draw(rt, "limit")
		}
	}
	c.Entry = rapid.SampledFrom(ioEntries[c.Format]).Draw(rt, "entry")
	c.EndErr = rapid.SampledFrom([]string{"eof", "eof", "eio"}).Draw(rt, "enderr")
	c.ErrWithData = rapid.IntRange(0, 3).Draw(rt, "errwithdata") == 0
	c.Chunks = rapid.SliceOfN(rapid.SampledFrom([]int{0, 1, 2, 3, 7, 16, 64, 4096}), 1, 4).Draw(rt, "chunks")
	c.BufSz = rapid.SampledFrom([]int{16, 17, 64, 4096, 65536}).Draw(rt, "bufsz")
	c.Sched = genSched(rt)
	// reader goroutine and consumer only meet at the channel: no pre-emption inside callee code (it would only slow down deep documents)
	c.Sched.Preempt, c.Sched.Quantum = nil, 0
	return c
}

func nestDoc(format string, depth, kind int) string {
	open, close := strings.Repeat("(", depth), strings.Repeat(")", depth)
	var t string
	switch kind {
	case 0:
		t = open + "a" + close + ";"
	case 1:
		t = open + "a,b" + strings.Repeat(",c)", depth) + ";"
	case 2:
		t = open + "a" // unbalanced
	default:
		t = strings.Repeat("[", depth) + "(a,b);"
	}
	if format == "nexus" {
		return "#NEXUS\nBEGIN TREES;\nTREE t = " + t + "\nEND;\n"
	}
	return t + "\n"
}

// exerciseTree performs the follow-up calls of the statement on a delivered tree.
func exerciseTree(t *tree.Tree) {
	if t == nil {
		return
	}
	// the logical loop budget is about the readers, not about the follow-up calls
	if p, ok := verifhook.Sim.(interface{ PauseTicks(bool) }); ok {
		p.PauseTicks(true)
		defer p.PauseTicks(false)
	}
	_ = t.Nodes()
	_ = t.Edges()
	_ = t.Tips()
	_ = t.TipEdges()
	_ = t.InternalEdges()
	_ = t.AllTipNames()
	_ = t.ReinitIndexes()
	_ = t.Newick()
	_ = t.Nexus()
	if len(t.Nodes()) <= 3000 { // the PhyloXML writer indents by depth: output quadratic in the nesting depth
		ch := make(chan tree.Trees, 1)
		ch <- tree.Trees{Tree: t, Id: 0}
		close(ch)
		_, _ = phyloxml.WritePhyloXML(ch)
	}
	_ = t.Clone()
}

func execC02(t *testing.T, cc any, o *Outcome) {
	c := cc.(*IOCase)
	doc := c.Doc
	if c.Nest > 0 {
		doc = nestDoc(c.Format, c.Nest, c.NestKind)
		o.Probe("deep-nesting")
	}
	limit := c.Limit
	if limit < 0 || limit > len(doc) {
		limit = len(doc)
	}
	endErr := io.EOF
	if c.EndErr == "eio" {
		endErr = errEIO
	}
	sr := &SimReader{Data: []byte(doc), Limit: limit, Chunks: c.Chunks, EndErr: endErr, ErrWithData: c.ErrWithData}
	br := bufio.NewReaderSize(sr, c.BufSz)
	budget := 2000 * int64(len(doc)+16)
	what := c.Format + "/" + c.Entry
	outcome := ""
	ntrees, nerr := 0, 0
	deliver := func(tr *tree.Tree, err error) {
		if err != nil {
			nerr++
			return
		}
		ntrees++
		exerciseTree(tr)
	}
	format := formatConst(c.Format)
	switch c.Entry {
	case "parse", "single":
		ps := &plainSim{max: budget, noGoroutines: true}
		verifhook.Sim = ps
		body := func() {
			if c.Entry == "single" {
				tr, err := utils.ReadTreeReader(br, format)
				if err == nil && tr == nil {
					o.Fail("nil-tree-without-error:"+what, "%s: neither a tree nor an error", what)
				}
				deliver(tr, err)
				return
			}
			switch c.Format {
			case "newick", "multi":
				deliver(newick.NewParser(br).Parse())
			case "nexus":
				nx, err := nexus.NewParser(br).Parse()
				if err != nil {
					deliver(nil, err)
					return
				}
				_ = nx.NTrees()
				deliver(nx.FirstTree(), nil)
				nx.IterateTrees(func(name string, tr *tree.Tree) { deliver(tr, nil) })
				if al := nx.Alignment(); al != nil {
					_ = al.NbSequences()
					_ = al.Length()
				}
			case "phyloxml":
				px, err := phyloxml.NewParser(br).Parse()
				if err != nil {
					deliver(nil, err)
					return
				}
				deliver(px.FirstTree())
				px.IterateTrees(func(tr *tree.Tree, err error) { deliver(tr, err) })
			case "nextstrain":
				ns, err := nextstrain.NewParser(br).Parse()
				if err != nil {
					deliver(nil, err)
					return
				}
				deliver(ns.FirstTree())
				ns.IterateTrees(func(tr *tree.Tree, err error) { deliver(tr, err) })
			}
		}
		ok, needSched := true, false
		func() {
			defer func() {
				if p := recover(); p != nil {
					if _, is := p.(needsScheduler); !is {
						panic(p)
					}
					needSched = true
				}
			}()
			ok = guard(o, what, body)
		}()
		verifhook.Sim = nil
		o.Steps = ps.ticks + int64(sr.Reads)
		if needSched {
			// the reader started a goroutine: repeat the case from the beginning inside the scheduler, where a goroutine that
			// never finishes is a deadlock of the simulation instead of a real hang
			o.Probe("single-reader-started-goroutines")
			sr = &SimReader{Data: []byte(doc), Limit: limit, Chunks: c.Chunks, EndErr: endErr, ErrWithData: c.ErrWithData}
			br = bufio.NewReaderSize(sr, c.BufSz)
			ntrees, nerr = 0, 0
			inner := &Outcome{}
			res := sched.Run(t, c.Sched.withTicks(400000, budget), func() { guard(inner, what, body) })
			o.Steps += int64(res.Steps) + res.Ticks
			o.Viols = append(o.Viols, inner.Viols...)
			for _, p := range res.Panics {
				if strings.HasPrefix(p.Value, "verif:") {
					o.Fail("hang:"+what, "%s: goroutine %s: %s\n%s", what, p.G, p.Value, trimStack(p.Stack))
					continue
				}
				o.Fail("panic:"+normPanic(p.Value, p.Stack), "%s: panic in goroutine %s (kills the process in production): %s\n%s", what, p.G, p.Value, trimStack(p.Stack))
			}
			if res.Exit != nil {
				o.Fail("process-exit:"+what, "%s: the library called os.Exit(%d)", what, res.Exit.Code)
			}
			if res.Deadlock && len(res.Panics) == 0 {
				o.Fail("deadlock:"+what, "%s: the reader waits for goroutines that can never finish: %v", what, res.Blocked)
			}
			if res.Budget {
				o.Fail("step-budget:"+what, "%s: more than %d scheduler decisions", what, res.Steps)
			}
			ok = len(o.Viols) == 0
		}
		if !ok {
			outcome = "violation"
		}
	case "multi":
		var inner *Outcome = &Outcome{}
		afterErr := 0
		res := sched.Run(t, c.Sched.withTicks(200000, budget), func() {
			guard(inner, what, func() {
				for rec := range utils.ReadMultiTrees(br, format) {
					verifhook.Yield("harness.collect", "recv")
					if nerr > 0 {
						afterErr++
					}
					deliver(rec.Tree, rec.Err)
					if rec.Err == nil && rec.Tree == nil {
						inner.Fail("nil-tree-without-error:"+what, "%s: a record with neither a tree nor an error", what)
					}
				}
			})
		})
		o.Steps = int64(res.Steps) + res.Ticks + int64(sr.Reads)
		o.Viols = append(o.Viols, inner.Viols...)
		for _, p := range res.Panics {
			if strings.HasPrefix(p.Value, "verif:") {
				o.Fail("hang:"+what, "%s: goroutine %s: %s\n%s", what, p.G, p.Value, trimStack(p.Stack))
				continue
			}
			o.Fail("panic:"+normPanic(p.Value, p.Stack), "%s: panic in goroutine %s (kills the process in production): %s\n%s", what, p.G, p.Value, trimStack(p.Stack))
		}
		if res.Exit != nil {
			o.Fail("process-exit:"+what, "%s: the library called os.Exit(%d)", what, res.Exit.Code)
		}
		if res.Deadlock && len(res.Panics) == 0 {
			o.Fail("deadlock:"+what, "%s: reader goroutine and consumer are both blocked: %v", what, res.Blocked)
		}
		if res.Budget {
			o.Fail("step-budget:"+what, "%s: more than %d scheduler decisions", what, res.Steps)
		}
		if len(o.Viols) > 0 {
			outcome = "violation"
		}
		if nerr > 0 && ntrees > 0 {
			o.Probe("multi-delivered-then-error")
		}
		_ = afterErr
	}
	if outcome == "" {
		if nerr > 0 {
			outcome = "error"
		} else {
			outcome = "trees"
		}
	}
	o.Probe("outcome:" + outcome)
	if sr.FiredInside() {
		if c.EndErr == "eio" {
			o.Fault("err@k")
			o.Probe("eio-inside")
		} else {
			o.Fault("trunc@k")
			o.Probe("trunc-inside")
		}
	}
	if sr.ZeroReads > 0 {
		o.Fault("zero-read")
		o.Probe("zero-read")
	}
	if c.ErrWithData && sr.ended {
		o.Fault("error-with-data")
		o.Probe("error-with-data")
	}
	if len(c.Chunks) > 1 || (len(c.Chunks) == 1 && c.Chunks[0] < 4096) {
		o.Fault("chunk")
	}
	if c.BufSz < 4096 {
		o.Fault("bufsz")
		if (c.Format == "multi" || c.Format == "newick") && c.Entry == "multi" && longestLine(doc[:limit]) > c.BufSz {
			o.Probe("isprefix-path")
		}
	}
	mutated := strings.Contains(c.Base, "+") || c.Nest > 0
	if mutated {
		o.Fault("mutation")
	}
	o.Nontrivial = sr.FiredInside() || mutated
	h := fnv.New64a()
	h.Write([]byte(doc))
	o.Key = fmt.Sprintf("%s/%s/%s/%016x/%d", c.Format, c.Entry, outcome, h.Sum64(), limit)
}

func longestLine(s string) int {
	m := 0
	for _, ln := range strings.Split(s, "\n") {
		if len(ln) > m {
			m = len(ln)
		}
	}
	return m
}

func (s SchedCase) withTicks(maxSteps int, ticks int64) sched.Config {
	cfg := s.Config(maxSteps)
	cfg.MaxTicks = ticks
	return cfg
}
