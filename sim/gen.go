package sim

// Workload generators. Every choice comes from rapid (through Rnd), so a case is a function of the one
// seed and shrinks; the generated case is explicit (texts, fault plans, schedule vectors).

import (
	"math/rand"
	"sort"
	"strconv"
	"strings"

	"pgregory.net/rapid"
	"sim/sched"
)

type rapidRnd struct{ rt *rapid.T }

func (r rapidRnd) Intn(n int) int {
	if n <= 1 {
		return 0
	}
	return rapid.IntRange(0, n-1).Draw(r.rt, "i")
}

type mathRnd struct{ r *rand.Rand }

func (m mathRnd) Intn(n int) int {
	if n <= 1 {
		return 0
	}
	return m.r.Intn(n)
}

// drawTaxa draws a number of taxa in [min,max]; about one case in 16 is "wide": 60..130 taxa, so that tip bitsets
// span more than one 64-bit word.
func drawTaxa(rt *rapid.T, min, max int) int {
	if rapid.IntRange(0, 15).Draw(rt, "wide") == 15 {
		// half of the wide cases sit on or next to a 64-bit word boundary
		if rapid.Bool().Draw(rt, "boundary") {
			return rapid.SampledFrom([]int{63, 64, 65, 127, 128, 129}).Draw(rt, "ntaxboundary")
		}
		return rapid.IntRange(60, 130).Draw(rt, "ntaxwide")
	}
	return rapid.IntRange(min, max).Draw(rt, "ntax")
}

// drawTaxaNames draws n distinct taxon names under one of several naming schemes: plain (t0, t1, ...), numeric mixed with
// alphanumeric (2, 10, 1a, 10a: numeric and text order disagree), prefix-heavy (a, aa, aab, ab: names that are prefixes of
// each other and whose concatenations collide).
func drawTaxaNames(rt *rapid.T, n int) []string {
	// a salt makes the names of (nearly) every case new to the process: state memoised per taxon name by an earlier case
	// must not hide what happens when a name is seen for the first time
	salt := rapid.IntRange(0, 9999).Draw(rt, "namesalt")
	switch rapid.IntRange(0, 9).Draw(rt, "naming") {
	case 9:
		// names that differ only by the case of their letters, or only by a trailing blank-like character
		var out []string
		for i := 0; len(out) < n; i++ {
			base := "Sp" + strconv.Itoa(salt) + "x" + strconv.Itoa(i)
			out = append(out, base)
			if len(out) < n {
				out = append(out, strings.ToLower(base))
			}
			if len(out) < n && i%3 == 0 {
				out = append(out, strings.ToUpper(base))
			}
		}
		return out
	case 8:
		// characters that are ordinary in a label but special somewhere else: format verbs, multi-byte runes, XML and shell characters
		var out []string
		marks := []string{"%d", "é", "日本", "#", "@", "+", "~", "%s%", "&", "ß_"} // no "|": the model joins the names of a split with it
		for i := 0; i < n; i++ {
			m := marks[(i+salt)%len(marks)]
			if i%2 == 0 {
				out = append(out, "t"+strconv.Itoa(i)+m)
			} else {
				out = append(out, m+"t"+strconv.Itoa(i))
			}
		}
		return out
	case 6:
		var out []string
		for i := 0; i < n; i++ {
			k := 1 + i*7%23 + (i/23)*23 + salt*100
			switch i % 3 {
			case 0:
				out = append(out, strconv.Itoa(k))
			case 1:
				out = append(out, strconv.Itoa(k)+"a")
			default:
				out = append(out, strconv.Itoa(k*10))
			}
		}
		return dedupNames(out)
	case 7:
		var out []string
		alphabet := []string{"a", "b", "s", "t"}
		for i := 0; len(out) < n; i++ {
			// all words over a small alphabet in length-lexicographic order: a, b, s, t, aa, ab, ...
			w, k := "", i
			for {
				w = alphabet[k%4] + w
				k = k/4 - 1
				if k < 0 {
					break
				}
			}
			out = append(out, w)
		}
		if salt%2 == 1 {
			for i := range out {
				out[i] = "q" + strconv.Itoa(salt) + out[i]
			}
		}
		return out
	}
	if salt%4 == 0 {
		return taxa(n, "t")
	}
	return taxa(n, "s"+strconv.Itoa(salt)+"t")
}

func dedupNames(xs []string) []string {
	seen := map[string]bool{}
	for i, x := range xs {
		for seen[x] {
			x += "x"
		}
		seen[x] = true
		xs[i] = x
	}
	return xs
}

func taxa(n int, prefix string) []string {
	var out []string
	for i := 0; i < n; i++ {
		out = append(out, prefix+strconv.Itoa(i))
	}
	return out
}

// SchedCase is the schedule part of a case.
type SchedCase struct {
	Strategy int      `json:"strategy"` // 0 uniform, 1 run-to-block, 2 round-robin, 3 PCT, 4 starve (one goroutine in six only runs when nothing else can)
	Choices  []uint32 `json:"choices"`
	Seed     uint64   `json:"seed"`
	SitePct  uint32   `json:"site_pct"`
	SiteSalt uint32   `json:"site_salt"`
	PCT      []int    `json:"pct,omitempty"`
	Preempt  []int    `json:"preempt,omitempty"` // pre-emption points inside callee code, in 1/100000 of the statements of the reference run
	Quantum  int      `json:"quantum,omitempty"` // > 0: also pre-empt every Quantum statements
}

func genSched(rt *rapid.T) SchedCase {
	s := SchedCase{}
	s.Strategy = rapid.IntRange(0, 4).Draw(rt, "strategy")
	s.Choices = rapid.SliceOfN(rapid.Uint32Range(0, 15), 0, 120).Draw(rt, "choices")
	s.Seed = rapid.Uint64Range(0, 1<<40).Draw(rt, "schedseed")
	s.SitePct = []uint32{100, 30, 10, 0}[rapid.IntRange(0, 3).Draw(rt, "sitepct")]
	s.SiteSalt = rapid.Uint32Range(0, 1000).Draw(rt, "sitesalt")
	s.Preempt = rapid.SliceOfN(rapid.IntRange(0, 99999), 0, 3).Draw(rt, "preempt")
	s.Quantum = rapid.SampledFrom([]int{0, 0, 0, 5000, 1000, 200, 50, 17}).Draw(rt, "quantum")
	if s.Strategy == 3 {
		n := rapid.IntRange(1, 3).Draw(rt, "npct")
		for i := 0; i < n; i++ {
			s.PCT = append(s.PCT, rapid.IntRange(1, 400).Draw(rt, "pctstep"))
		}
	}
	return s
}

// nominalStmts stands for the statement count of a run when no reference run has measured it.
const nominalStmts = 20000

func (s SchedCase) Config(maxSteps int) sched.Config { return s.ConfigT(maxSteps, nominalStmts) }

// ConfigT scales the pre-emption points to a run of about total statements.
func (s SchedCase) ConfigT(maxSteps, total int) sched.Config {
	var pre []int
	for _, f := range s.Preempt {
		pre = append(pre, 1+int(int64(f)*int64(total)/100000))
	}
	sort.Ints(pre)
	return sched.Config{Preempt: pre, Quantum: s.Quantum, Strategy: sched.Strategy(s.Strategy), Choices: s.Choices, SchedSeed: s.Seed, SitePct: s.SitePct, SiteSalt: s.SiteSalt,
		PCTChanges: s.PCT, MaxSteps: maxSteps,
		// a goroutine that loops without ever reaching a communication point never comes back to the scheduler: the logical loop
		// budget (one tick per iteration of every loop of the reader packages) ends it with a verdict instead of a real hang
		MaxTicks: 20_000_000,
		// iteration order of the maps of the code under test: part of the schedule (C18 draws it separately)
		MapSeed: uint64(s.Seed)*2654435761 + uint64(s.SiteSalt) + 1, HasMapSeed: true}
}

// sequential schedule used for reference runs
func seqSched() SchedCase { return SchedCase{Strategy: 1, SitePct: 0} }

// innerNodes returns the non-root inner nodes of a model tree.
func innerNodes(m *RNode) []*RNode {
	var out []*RNode
	for _, x := range m.all() {
		if x.Parent != nil && !x.IsTip() {
			out = append(out, x)
		}
	}
	return out
}

// related derives from base a tree on the same taxa: SPR moves, contractions, another presentation.
func related(base *RNode, r Rnd, maxSPR, maxContract int) *RNode {
	m := base.Clone(nil)
	for k := r.Intn(maxSPR + 1); k > 0; k-- {
		SPR(m, r)
	}
	for k := r.Intn(maxContract + 1); k > 0; k-- {
		if in := innerNodes(m); len(in) > 0 {
			Contract(in[r.Intn(len(in))])
		}
	}
	Unroot(m)
	return represent(m, r)
}

// represent returns another presentation of the same unrooted tree: re-rooted at a random inner node,
// children rotated.
func represent(m *RNode, r Rnd) *RNode {
	m = m.Clone(nil)
	switch r.Intn(3) {
	case 0:
		var cands []*RNode
		for _, x := range innerNodes(m) {
			if len(x.Children) >= 2 {
				cands = append(cands, x)
			}
		}
		if len(cands) > 0 && len(m.Children) >= 3 {
			m = RerootAt(cands[r.Intn(len(cands))])
		}
	}
	Rotate(m, r)
	return m
}

// RootOnBranch returns a rooted (degree-2 root) presentation: a new root in the middle of the branch above x.
func RootOnBranch(root *RNode, x *RNode) *RNode {
	if x.Parent == nil {
		return root
	}
	// first make x's parent the root, then split off x
	p := x.Parent
	if p.Parent != nil {
		root = RerootAt(p)
	}
	p = root
	p.removeChild(x)
	if len(p.Children) == 1 {
		// p would be a single node: cannot root here sensibly
		p.Children = append(p.Children, x)
		return root
	}
	nr := &RNode{}
	if x.HasLen {
		x.Len /= 2
		p.HasLen, p.Len = true, x.Len
	}
	p.Label = ""
	x.Parent, p.Parent = nr, nr
	nr.Children = []*RNode{x, p}
	return nr
}

// rootAtRandom roots the tree on the branch above a random node and puts the two root children in a random order
// (so that a tip can be the first or the second child of the root).
func rootAtRandom(root *RNode, all []*RNode, r Rnd) *RNode {
	m := RootOnBranch(root, all[1+r.Intn(len(all)-1)])
	if len(m.Children) == 2 && r.Intn(2) == 0 {
		m.Children[0], m.Children[1] = m.Children[1], m.Children[0]
	}
	return m
}

func sortedKeys[V any](m map[string]V) []string {
	ks := make([]string, 0, len(m))
	for k := range m {
		ks = append(ks, k)
	}
	sort.Strings(ks)
	return ks
}

// replaceTip returns text with the first occurrence of tip name a (as a whole label) replaced by b.
func replaceTip(text, a, b string) string {
	for _, pre := range []string{"(", ","} {
		for _, post := range []string{":", ",", ")"} {
			if i := strings.Index(text, pre+a+post); i >= 0 {
				return text[:i] + pre + b + post + text[i+len(pre+a+post):]
			}
		}
	}
	return text
}
