package sim

// C15 — local edits leave the rest of the tree intact; copies are independent. Engine histsim, two parties.

import (
	"fmt"
	"math"
	"sort"
	"strings"
	"testing"

	"github.com/evolbioinfo/gotree/tree"
	"pgregory.net/rapid"
)

func init() {
	Register(&Engine{
		Name: "c15", Prop: "C15",
		Rule: "case = (start tree of 3..12 tips with lengths none / all / partly, supports, node and branch comments; indexes computed or not; a copy made by Clone() or by " +
			"SubTree(n) at a drawn inner node; a history of 1..20 editing steps (the 33 operations of c03), each applied to the original or to the copy as drawn). " +
			"Oracles: at copy time the clone's Newick text (with comments) and API snapshot (names, lengths, supports, p-values, node and branch comments, adjacency " +
			"order) equal the original's; after every step — successful or not — text and snapshot of the party that was NOT edited are unchanged; after every successful " +
			"graft / merge / InsertIdenticalTips / RemoveSingleNodes / SubTree / Clone step the tip-to-tip path lengths between pre-existing tips are unchanged (1e-9), " +
			"exactly the requested tips were added, and identical tips sit at distance 0 from their model. Non-trivial: ≥ 1 successful structure-changing step on each " +
			"party, or ≥ 1 local edit; distinct = distinct (copy kind, sequence of (party, successful operation kind))",
		Gen: func(rt *rapid.T, tier string) any {
			c := &HistCase{Start: genTreeText(rt, "t", 3, 12, true)}
			c.Ops = genOps(rt, c15Ops, 1, 20)
			if rapid.IntRange(0, 1499).Draw(rt, "big") == 0 {
				// thousands of tips, just above round numbers where code paths meant for "large" inputs begin: copy step only
				c.Start = bigTreeText(int64(rapid.IntRange(1, 1<<30).Draw(rt, "bigseed")), rapid.SampledFrom([]int{1001, 1025, 2049, 5001}).Draw(rt, "bigsize"), rapid.Bool().Draw(rt, "bigrooted"))
				c.Ops = nil
			}
			for range c.Ops {
				c.Who = append(c.Who, rapid.IntRange(0, 1).Draw(rt, "who"))
			}
			c.Copy = rapid.SampledFrom([]string{"clone", "clone", "subtree"}).Draw(rt, "copy")
			c.CopyN = rapid.IntRange(0, 30).Draw(rt, "copyn")
			c.Index = rapid.Bool().Draw(rt, "index")
			return c
		},
		New:       func() any { return &HistCase{} },
		Exec:      execC15,
		Real:      []string{"Tree.Clone / CopyNode / CopyEdge / SubTree", "GraftTreeOnTip", "Merge", "InsertIdenticalTips", "RemoveSingleNodes", "all public editing operations of package tree", "Newick writer"},
		Simulated: []string{"the two-party operation history (which party, operations, arguments, order)", "global math/rand seam seeded per step"},
		Expected: []string{"copy:clone", "copy:subtree", "clone-with-branch-comments", "clone-with-node-comments", "local:graft", "local:merge", "local:insertidentical", "local:removesingle",
			"local:subtree", "local:clone", "edited-original", "edited-copy", "removesingle-suppressed-a-node"},
	})
}

// local edits are drawn more often than in c03
var c15Ops = append(append([]string{}, histOps...), "insertidentical1", "insertidentical1", "graft", "merge", "insertidentical", "removesingle", "subtree", "clone", "graft", "insertidentical", "removesingle", "reroot")

// snapshot of everything observable through the API
func snapshot(t *tree.Tree) string { return snapshotOf(t, true) }

// snapshotOf: withIndex adds the derived data (bitsets, tip counts, hash codes) — used to see that the untouched party does not
// change; the comparison of a clone with its source leaves them out (a copy that recomputes them later is still an exact copy).
func snapshotOf(t *tree.Tree, withIndex bool) string {
	var b strings.Builder
	var rec func(n, p *tree.Node)
	rec = func(n, p *tree.Node) {
		fmt.Fprintf(&b, "{%q c=%q", n.Name(), n.Comments())
		for i, m := range n.Neigh() {
			if m == p {
				continue
			}
			e := n.Edges()[i]
			fmt.Fprintf(&b, " <l=%v s=%v p=%v c=%q", e.Length(), e.Support(), e.PValue(), e.Comments())
			if bs := e.Bitset(); bs != nil && withIndex {
				fmt.Fprintf(&b, " bits=%s %d/%d h=%d", bs.String(), e.NumTipsLeft(), e.NumTipsRight(), e.HashCode())
			}
			b.WriteString(">")
			rec(m, n)
		}
		b.WriteString("}")
	}
	rec(t.Root(), nil)
	return b.String()
}

func tipSet(m *RNode) map[string]int {
	out := map[string]int{}
	for _, n := range m.Tips() {
		out[n]++
	}
	return out
}

// checkLocalEdit compares the model before and after a local edit.
func checkLocalEdit(o *Outcome, op, desc, before, after string, hist []string, req *histState) {
	bm, err1 := ParseRef(before)
	am, err2 := ParseRef(after)
	if err1 != nil || err2 != nil {
		return // unreadable text is C03's business
	}
	bt, at := tipSet(bm), tipSet(am)
	for _, k := range bt {
		if k > 1 {
			o.Probe("local-edit-oracle-skipped-duplicate-tip-names")
			return // tip sets and distances are keyed by name: nothing can be said about a tree with two tips of the same name
		}
	}
	ctx := fmt.Sprintf("%s\n  before %s\n  after  %s\nhistory:\n  %s", desc, before, after, strings.Join(hist, "\n  "))
	var added, removed []string
	for n := range at {
		if bt[n] == 0 {
			added = append(added, n)
		}
	}
	for n := range bt {
		if at[n] == 0 {
			removed = append(removed, n)
		}
	}
	sort.Strings(added)
	sort.Strings(removed)
	wantAdded, wantRemoved, identical := append([]string(nil), req.added...), append([]string(nil), req.removed...), req.groups
	if op == "subtree" {
		wantRemoved = removed // a subtree keeps a subset of the tips; which one is the argument
	}
	// a tip replaced by a tree that has a tip of the same name is neither added nor removed
	both := map[string]bool{}
	for _, a := range wantAdded {
		for _, r := range wantRemoved {
			if a == r {
				both[a] = true
			}
		}
	}
	if len(both) > 0 {
		var wa, wr []string
		for _, a := range wantAdded {
			if !both[a] {
				wa = append(wa, a)
			}
		}
		for _, r := range wantRemoved {
			if !both[r] {
				wr = append(wr, r)
			}
		}
		wantAdded, wantRemoved = wa, wr
	}
	sort.Strings(wantAdded)
	sort.Strings(wantRemoved)
	if strings.Join(added, ",") != strings.Join(wantAdded, ",") || strings.Join(removed, ",") != strings.Join(wantRemoved, ",") {
		o.Fail("local-edit:tips:"+op, "tips added %v / removed %v, requested %v / %v\n%s", added, removed, wantAdded, wantRemoved, ctx)
		return
	}
	for n, k := range at {
		if k > 1 && bt[n] <= 1 {
			o.Fail("local-edit:duplicate-tip:"+op, "tip %s occurs %d times after the edit\n%s", n, k, ctx)
			return
		}
	}
	// path lengths are only defined when every branch has a length (or none has: all paths are 0); a tree with
	// lengths on some branches only is left out of the distance oracle
	nlen, nbr := 0, 0
	for _, x := range bm.all() {
		if x.Parent != nil {
			nbr++
			if x.HasLen {
				nlen++
			}
		}
	}
	if nlen != 0 && nlen != nbr {
		o.Probe("distance-oracle-skipped-partial-lengths")
		return
	}
	o.Probe("distance-oracle-evaluated")
	bd, ad := bm.Dist(), am.Dist()
	for _, k := range sortedKeys(bd) {
		ab := strings.Split(k, "|")
		if at[ab[0]] == 0 || at[ab[1]] == 0 || both[ab[0]] || both[ab[1]] {
			continue // (a tip replaced by a tree with a tip of the same name is a new tip)
		}
		if d, ok := ad[k]; !ok || math.Abs(d-bd[k]) > 1e-9 {
			o.Fail("local-edit:distance:"+op, "path length between pre-existing tips %s changed from %v to %v\n%s", k, bd[k], d, ctx)
			return
		}
	}
	for _, g := range identical {
		for i := 0; i < len(g); i++ {
			for j := i + 1; j < len(g); j++ {
				k := g[i] + "|" + g[j]
				if g[j] < g[i] {
					k = g[j] + "|" + g[i]
				}
				if d, ok := ad[k]; !ok || d != 0 {
					o.Fail("local-edit:identical-distance", "identical tips %s and %s are at distance %v (found %v)\n%s", g[i], g[j], d, ok, ctx)
					return
				}
			}
		}
	}
}

var localOps = map[string]bool{"graft": true, "merge": true, "insertidentical": true, "insertidentical1": true, "removesingle": true, "subtree": true, "clone": true}

func execC15(t *testing.T, cc any, o *Outcome) {
	c := cc.(*HistCase)
	var orig, cp *tree.Tree
	if !guard(o, "start", func() { orig = mustParse(c.Start) }) {
		return
	}
	if c.Index {
		orig.ReinitIndexes()
	}
	if c.Copy == "subtree" && c.CopyN%6 == 0 && len(c.Start) < 20000 {
		// the clade below the root is the whole tree — also when the root has a single neighbour (a tree written with one more
		// pair of parentheses; gotree then treats the root as an unnamed tip)
		text := c.Start
		if c.CopyN%12 == 0 {
			text = "(" + strings.TrimSuffix(strings.TrimSpace(c.Start), ";") + ");"
		}
		guard(o, "subtree-at-root", func() {
			t := mustParse(text)
			if c.Index {
				t.ReinitIndexes()
			}
			want := t.Newick()
			got := t.SubTree(t.Root()).Newick()
			o.Probe("subtree-at-the-root")
			if got != want {
				o.Fail("subtree:root", "SubTree at the root differs from the tree\n  tree    %s\n  subtree %s", want, got)
			}
			if after := t.Newick(); after != want {
				o.Fail("subtree:root-changes-original", "SubTree at the root changed the tree\n  before %s\n  after  %s", want, after)
			}
		})
	}
	o.Probe("copy:" + c.Copy)
	if strings.Contains(c.Start, "[b") {
		o.Probe("clone-with-branch-comments")
	}
	if strings.Contains(c.Start, "[n") {
		o.Probe("clone-with-node-comments")
	}
	ok := guard(o, "copy", func() {
		if c.Copy == "subtree" {
			in := innerNodesOf(orig, 3, false)
			if len(in) == 0 {
				cp = orig.Clone()
				return
			}
			cp = orig.SubTree(in[c.CopyN%len(in)])
			return
		}
		cp = orig.Clone()
		if a, b := cp.Newick(), orig.Newick(); a != b {
			o.Fail("clone:text", "the clone's text differs from the original's\n  original %s\n  clone    %s", b, a)
		} else if a, b := snapshotOf(cp, false), snapshotOf(orig, false); a != b {
			o.Fail("clone:snapshot", "the clone differs from the original through the API\n  original %s\n  clone    %s", b, a)
		}
	})
	if !ok || len(o.Viols) > 0 || cp == nil {
		return
	}
	if len(c.Start) > 20000 {
		o.Probe("copy-of-a-tree-with-thousands-of-tips")
		if c.Copy == "subtree" {
			// the copied clade, written by the original and by the copy
			in := innerNodesOf(orig, 3, false)
			if len(in) > 0 {
				want, err := ParseRef(orig.Newick())
				got, err2 := ParseRef(cp.Newick())
				if err == nil && err2 == nil && len(got.Tips()) > len(want.Tips()) {
					o.Fail("subtree:tips", "SubTree of a %d-tip tree has %d tips", len(want.Tips()), len(got.Tips()))
				}
			}
		}
		return
	}
	parties := []*histState{{t: orig, text: orig.Newick(), freshIndex: c.Index}, {t: cp, text: cp.Newick(), freshIndex: c.Index && c.Copy == "clone"}}
	// the two parties draw fresh names from disjoint ranges
	parties[1].serial = 1000
	var hist, kinds []string
	hist = append(hist, "start "+c.Start, "copy by "+c.Copy)
	nstruct := [2]int{}
	nlocal := 0
	for i, op := range c.Ops {
		who := c.Who[i%len(c.Who)]
		other := parties[1-who]
		var beforeText, beforeSnap string
		if !guard(o, "observe", func() { beforeText, beforeSnap = other.t.Newick(), snapshot(other.t) }) {
			return
		}
		ownBefore := parties[who].text
		desc, err := safeApply(parties[who], op)
		if desc == opSkip {
			continue
		}
		o.Steps++
		hist = append(hist, fmt.Sprintf("party %d: %s err=%v", who, desc, err))
		var afterText, afterSnap string
		if !guard(o, "observe", func() { afterText, afterSnap = other.t.Newick(), snapshot(other.t) }) {
			return
		}
		if afterText != beforeText || afterSnap != beforeSnap {
			o.Fail("copy-not-independent:"+op.Op, "editing party %d (0 = original, 1 = copy by %s) changed the other one\nhistory:\n  %s\nother before %s\nother after  %s\nsnapshot before %s\nsnapshot after  %s",
				who, c.Copy, strings.Join(hist, "\n  "), beforeText, afterText, beforeSnap, afterSnap)
			return
		}
		if err != nil && parties[who].ranFresh && parties[who].targetExisted && uniqueNodeNames(parties[who].t) {
			if _, isPanic := err.(opPanic); !isPanic {
				// all graft positions / all groups with one existing member: the tip exists (it was taken from a traversal) and the
				// function that made the previous edit keeps the tip index current, so the request cannot be refused
				o.Fail("local-edit:refused:"+op.Op, "party %d: %s is refused (%v) although the tip it names is a tip of the tree\nhistory:\n  %s\ntree %s", who, desc, err, strings.Join(hist, "\n  "), safeText(parties[who].t))
				return
			}
		}
		if err != nil {
			o.Probe("op-failed")
			if !guard(o, "restore", func() { parties[who].t = mustParse(parties[who].text) }) {
				return
			}
			continue
		}
		if who == 0 {
			o.Probe("edited-original")
		} else {
			o.Probe("edited-copy")
		}
		kinds = append(kinds, fmt.Sprintf("%d:%s", who, op.Op))
		if structOps[op.Op] {
			nstruct[who]++
		}
		var now string
		if !guard(o, "write", func() { now = parties[who].t.Newick() }) {
			return
		}
		if localOps[op.Op] {
			nlocal++
			o.Probe("local:" + op.Op)
			if op.Op == "removesingle" && len(now) < len(ownBefore) {
				o.Probe("removesingle-suppressed-a-node")
			}
			checkLocalEdit(o, op.Op, desc, ownBefore, now, hist, parties[who])
			if len(o.Viols) > 0 {
				return
			}
		}
		if len(parties[who].t.Tips()) < 3 {
			break
		}
		parties[who].text = now
	}
	o.Nontrivial = (nstruct[0] > 0 && nstruct[1] > 0) || nlocal > 0
	o.Key = c.Copy + "/" + strings.Join(kinds, ",")
}

// uniqueNodeNames: no two nodes (tips or inner nodes) carry the same non-empty name (name-keyed functions refuse such trees).
func uniqueNodeNames(t *tree.Tree) bool {
	seen := map[string]bool{}
	for _, n := range t.Nodes() {
		if n.Name() == "" {
			continue
		}
		if seen[n.Name()] {
			return false
		}
		seen[n.Name()] = true
	}
	return true
}
