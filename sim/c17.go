package sim

// C17 — the NNI neighbourhood is complete, minimal and reversible. Engine histsim.

import (
	"fmt"
	"math/rand"
	"os"
	"path/filepath"
	"sort"
	"strconv"
	"strings"
	"testing"

	"github.com/evolbioinfo/gotree/tree"
	"pgregory.net/rapid"
)

type NNICase struct {
	Tree    string `json:"tree"`              // unrooted binary tree (text)
	Moves   []HOp  `json:"moves"`             // history of root moves through the API
	Pattern []int  `json:"pattern"`           // per proposal (cyclic): bit 0 Apply twice, bit 1 Undo twice, bit 2 check structure through the API
	Collect bool   `json:"collect,omitempty"` // true: the callback only stores the proposals, they are applied / undone in enumeration order afterwards
	// TipRoot: the text presents the tree from one of its tips, "(subtree)A;": the root node has a single neighbour and a taxon name
	TipRoot bool `json:"tiproot,omitempty"`
}

// tipRootText presents the unrooted tree m from its leaf number k: "(...)name;".
func tipRootText(m *RNode, k int) string {
	var leaves []*RNode
	for _, x := range m.all() {
		// a number after the last ')' is read as a support, not as a name: the root tip has a name that is not a number
		if _, err := strconv.ParseFloat(x.Label, 64); x.IsTip() && err != nil {
			leaves = append(leaves, x)
		}
	}
	if len(leaves) == 0 {
		return ""
	}
	return RerootAt(leaves[k%len(leaves)]).Newick()
}

// normTipRoot reads a root that has one child and a name as what gotree takes it for: a tip hanging from that child.
func normTipRoot(m *RNode) *RNode {
	if len(m.Children) != 1 || m.Label == "" || m.Children[0].IsTip() {
		return m
	}
	c := m.Children[0]
	leaf := &RNode{Label: m.Label, HasLen: c.HasLen, Len: c.Len, Parent: c}
	c.Children = append(c.Children, leaf)
	c.Parent, c.HasLen, c.Len, c.Label = nil, false, 0, ""
	return c
}

func parseRefTipRoot(text string) (*RNode, error) {
	m, err := ParseRef(text)
	if err != nil {
		return nil, err
	}
	return normTipRoot(m), nil
}

var rootMoves = []string{"reroot", "outgroup", "midpoint", "unroot", "rerootfirst", "rotate", "sort", "reinit", "graft", "grafttip", "nniapply"}

func init() {
	Register(&Engine{
		Name: "c17", Prop: "C17",
		Rule: "case = (binary tree on 4..14 tips with dyadic lengths, supports on some inner branches; a history of 0..4 root moves through the API: Reroot at a drawn " +
			"inner node, RerootOutGroup (tip sets and clades), RerootMidPoint, UnRoot, RerootFirst, rotation / sorting of children, followed by RemoveSingleNodes " +
			"so that the tree stays binary; then NNIRearranger.Rearrange with, inside the callback, a drawn pattern of Apply / repeated Apply / Undo / repeated Undo, " +
			"always undone before returning — or, for a third of the cases, the callback only collects the proposals and they are applied / undone one after the other in " +
			"enumeration order afterwards). Oracles per proposal: Apply succeeds, the tree passes the C03 structural checker, has the same tips, its split set " +
			"differs from the original's by exactly one split out and one in; all neighbours pairwise distinct; after Undo the Newick text is byte-identical to the " +
			"original, and so it is after the enumeration; each enumerated inner split is removed by exactly two proposals; number of proposals = 2 × (branches whose " +
			"two ends have three neighbours), = 2(n−3) for unrooted trees. Non-trivial: the root was moved and ≥ 4 proposals were made; distinct = distinct (tree " +
			"text after the moves)",
		Gen: func(rt *rapid.T, tier string) any {
			r := rapidRnd{rt}
			m := RandomTree(drawTaxaNames(rt, drawTaxa(rt, 4, 14)), r, 2, true)
			for _, x := range m.all() {
				if !x.IsTip() && x.Parent != nil && rapid.Bool().Draw(rt, "sup") {
					x.Label = strconv.FormatFloat(float64(rapid.IntRange(0, 8).Draw(rt, "supv"))/8, 'f', -1, 64)
				}
			}
			c := &NNICase{Tree: m.Newick(), Moves: genOps(rt, rootMoves, 0, 4), Pattern: rapid.SliceOfN(rapid.IntRange(0, 15), 1, 8).Draw(rt, "pattern"),
				Collect: rapid.IntRange(0, 2).Draw(rt, "collect") == 0}
			if rapid.IntRange(0, 5).Draw(rt, "tiproot") == 5 {
				// the same tree written from one of its tips (what a rooted tree with an outgroup of one looks like once the other root branch is gone)
				if text := tipRootText(m, rapid.IntRange(0, 13).Draw(rt, "roottip")); text != "" {
					c.TipRoot, c.Tree = true, text
					if rapid.Bool().Draw(rt, "keeproot") {
						c.Moves = nil // the root stays on the tip for the enumeration
					}
				}
			}
			return c
		},
		New:       func() any { return &NNICase{} },
		Exec:      execC17,
		Real:      []string{"tree.NNIRearranger.Rearrange", "nni.Apply / Undo", "Tree.Reroot / RerootOutGroup / RerootMidPoint / UnRoot / RemoveSingleNodes", "Newick writer"},
		Simulated: []string{"the history of root moves before the enumeration", "the apply/undo pattern inside the callback", "global math/rand seam seeded per step"},
		Expected:  []string{"rooted", "unrooted", "root-moved", "apply-twice", "undo-twice", "collected-then-applied", "applied-inside-callback", "nni-command", "nni-command-several-trees", "nested-enumeration", "second-enumeration-after-a-kept-move", "root-is-a-tip"},
	})
}

func splitKeysOf(text string, withTrivial bool) ([]string, error) {
	m, err := parseRefTipRoot(text)
	if err != nil {
		return nil, err
	}
	var ks []string
	for k, v := range m.Splits() {
		if withTrivial || !v.Trivial {
			ks = append(ks, k)
		}
	}
	sort.Strings(ks)
	return ks, nil
}

func setDiff(a, b []string) (onlyA, onlyB []string) {
	in := map[string]int{}
	for _, x := range a {
		in[x] |= 1
	}
	for _, x := range b {
		in[x] |= 2
	}
	for _, k := range sortedKeys(in) {
		switch in[k] {
		case 1:
			onlyA = append(onlyA, k)
		case 2:
			onlyB = append(onlyB, k)
		}
	}
	return
}

func execC17(t *testing.T, cc any, o *Outcome) {
	c := cc.(*NNICase)
	var st *histState
	if !guard(o, "start", func() { st = &histState{t: mustParse(c.Tree), text: c.Tree} }) {
		return
	}
	hist := []string{"start " + c.Tree}
	moved := false
	for _, op := range c.Moves {
		if op.Op == "outgroup" {
			op.A &^= 1 // never remove the outgroup: the tips stay the same
		}
		desc, err := safeApply(st, op)
		if desc == opSkip {
			continue
		}
		if err != nil {
			st.t = mustParse(st.text)
			hist = append(hist, desc+" -> "+err.Error())
			continue
		}
		st.t.RemoveSingleNodes() // re-rooting a rooted tree leaves the old root as a single-child node: keep the tree binary
		st.text = st.t.Newick()
		hist = append(hist, desc)
		if op.Op != "rotate" && op.Op != "sort" {
			moved = true
		}
	}
	tr := st.t
	// binary?
	for _, n := range tr.Nodes() {
		d := n.Nneigh()
		if !(d == 1 || d == 3 || (n == tr.Root() && d == 2)) {
			return // not a binary tree (cannot happen with the moves above; then nothing is asserted)
		}
	}
	if len(tr.Tips()) < 4 {
		return
	}
	rooted := tr.Rooted()
	if rooted {
		o.Probe("rooted")
	} else {
		o.Probe("unrooted")
	}
	if moved {
		o.Probe("root-moved")
	}
	if tr.Root().Nneigh() == 1 {
		o.Probe("root-is-a-tip")
	}
	orig := tr.Newick()
	origAll, err := splitKeysOf(orig, true)
	if err != nil {
		o.Fail("nni:text-unreadable", "text before the enumeration is not Newick: %v\n%s", err, orig)
		return
	}
	origInner, _ := splitKeysOf(orig, false)
	origSplitInfo := map[string]*SplitInfo{}
	if om, err := parseRefTipRoot(orig); err == nil && !rooted {
		// (for a rooted tree the two root branches share one split and an NNI next to the root may re-distribute them: left out)
		origSplitInfo = om.Splits()
	}
	ntips := len(tr.Tips())
	// branches the generator must enumerate, with their splits (from the walk, not from the index)
	all := sortedTipNames(tr)
	wantRemoved := map[string]int{}
	nbranches := 0
	for _, e := range tr.Edges() {
		if e.Left().Nneigh() == 3 && e.Right().Nneigh() == 3 {
			k, _ := splitKeyOfEdge(e, all)
			wantRemoved[k] += 2
			nbranches++
		}
	}
	ctx := func() string {
		return fmt.Sprintf("rooted=%v\nhistory:\n  %s\ntree %s", rooted, strings.Join(hist, "\n  "), orig)
	}
	nprop := 0
	rearranger := &tree.NNIRearranger{} // one generator object for every enumeration of the case, as a search would keep it
	seen := map[string]int{}
	removed := map[string]int{}
	ok := guard(o, "enumeration", func() {
		var collected []tree.Rearrangement
		visit := func(re tree.Rearrangement) bool {
			pat := c.Pattern[nprop%len(c.Pattern)]
			nprop++
			o.Steps++
			if err := re.Apply(); err != nil {
				o.Fail("nni:apply-error", "proposal %d: Apply fails: %v\n%s", nprop, err, ctx())
				return false
			}
			if pat&1 != 0 {
				o.Probe("apply-twice")
				if err := re.Apply(); err != nil {
					o.Fail("nni:apply-error", "proposal %d: second Apply fails: %v\n%s", nprop, err, ctx())
					return false
				}
			}
			if _, d := CheckStructure(tr); d != "" {
				o.Fail("nni:ill-formed:"+defectClass(d), "proposal %d: after Apply: %s\n%s\nnow  %s", nprop, d, ctx(), safeText(tr))
				return false
			}
			after := tr.Newick()
			afterAll, err := splitKeysOf(after, true)
			if err != nil {
				o.Fail("nni:text-unreadable", "proposal %d: text after Apply is not Newick: %v\n%s", nprop, err, after)
				return false
			}
			afterInner, _ := splitKeysOf(after, false)
			if len(afterAll) != len(origAll) || strings.Join(sortedTipNames(tr), ",") != strings.Join(all, ",") {
				o.Fail("nni:tips-changed", "proposal %d: tips or number of branches changed\n%s\nafter %s", nprop, ctx(), after)
				return false
			}
			out, in := setDiff(origInner, afterInner)
			if len(out) != 1 || len(in) != 1 {
				o.Fail("nni:not-one-split", "proposal %d: the neighbour lacks %v and adds %v (exactly one each expected)\n%s\nafter %s", nprop, out, in, ctx(), after)
				return false
			}
			// every other branch is the same branch: its length travels with its split (tip branches included)
			if am, err := parseRefTipRoot(after); err == nil {
				as := am.Splits()
				for k, b := range origSplitInfo {
					a, common := as[k]
					if !common {
						continue
					}
					if a.HasLen != b.HasLen || a.Len != b.Len {
						o.Fail("nni:length-moved", "proposal %d: branch {%s} has length %v (present %v) after Apply, %v (present %v) before\n%s\nafter %s", nprop, k, a.Len, a.HasLen, b.Len, b.HasLen, ctx(), after)
						return false
					}
				}
			}
			removed[out[0]]++
			key := strings.Join(afterInner, ";")
			if prev, dup := seen[key]; dup {
				o.Fail("nni:duplicate-neighbour", "proposals %d and %d give the same tree\n%s\nafter %s", prev, nprop, ctx(), after)
				return false
			}
			seen[key] = nprop
			if pat&8 != 0 && ntips <= 14 {
				// a second enumeration started while the first one is in progress (what a hill-climbing search does): it must see
				// a binary tree with the same number of eligible branches and leave it unchanged
				o.Probe("nested-enumeration")
				inner := 0
				rearranger.Rearrange(tr, func(r2 tree.Rearrangement) bool {
					inner++
					if r2.Apply() != nil || r2.Undo() != nil {
						inner = -1 << 20
					}
					return true
				})
				if inner != 2*nbranches || tr.Newick() != after {
					o.Fail("nni:nested-enumeration", "proposal %d: an enumeration nested in the callback makes %d proposals (%d expected) or changes the tree\n%s\nbefore nested %s\nafter nested  %s", nprop, inner, 2*nbranches, ctx(), after, safeText(tr))
					return false
				}
			}
			if err := re.Undo(); err != nil {
				o.Fail("nni:undo-error", "proposal %d: Undo fails: %v\n%s", nprop, err, ctx())
				return false
			}
			if pat&2 != 0 {
				o.Probe("undo-twice")
				if err := re.Undo(); err != nil {
					o.Fail("nni:undo-error", "proposal %d: second Undo fails: %v\n%s", nprop, err, ctx())
					return false
				}
			}
			if now := tr.Newick(); now != orig {
				o.Fail("nni:undo-does-not-restore", "proposal %d: text after Undo differs from the original\n%s\nnow  %s", nprop, ctx(), now)
				return false
			}
			if pat&4 != 0 {
				if _, d := CheckStructure(tr); d != "" {
					o.Fail("nni:ill-formed-after-undo:"+defectClass(d), "proposal %d: after Undo: %s\n%s", nprop, d, ctx())
					return false
				}
			}
			return true
		}
		if c.Collect {
			o.Probe("collected-then-applied")
			rearranger.Rearrange(tr, func(re tree.Rearrangement) bool { collected = append(collected, re); return true })
			for _, re := range collected {
				if !visit(re) {
					break
				}
			}
		} else {
			o.Probe("applied-inside-callback")
			rearranger.Rearrange(tr, visit)
		}
	})
	if !ok || len(o.Viols) > 0 {
		return
	}
	if now := tr.Newick(); now != orig {
		o.Fail("nni:enumeration-changed-tree", "text after the enumeration differs\n%s\nnow  %s", ctx(), now)
		return
	}
	if nprop != 2*nbranches {
		o.Fail("nni:count", "%d proposals for %d branches whose two ends have three neighbours\n%s", nprop, nbranches, ctx())
	}
	if !rooted && nprop != 2*(ntips-3) {
		o.Fail("nni:count", "%d proposals on an unrooted binary tree with %d tips, 2(n-3) = %d expected\n%s", nprop, ntips, 2*(ntips-3), ctx())
	}
	for _, k := range sortedKeys(wantRemoved) {
		if removed[k] != wantRemoved[k] {
			o.Fail("nni:per-branch", "inner split {%s} is rearranged by %d proposals, %d expected\n%s", k, removed[k], wantRemoved[k], ctx())
			break
		}
	}
	o.Nontrivial = moved && nprop >= 4
	o.Key = orig
	if len(o.Viols) == 0 && len(c.Pattern) > 2 && nprop > 0 {
		// a search step: keep one of the proposed moves, then enumerate the neighbours of the new tree with the same generator
		guard(o, "second-enumeration", func() {
			var first []tree.Rearrangement
			rearranger.Rearrange(tr, func(re tree.Rearrangement) bool { first = append(first, re); return true })
			if len(first) == 0 || first[c.Pattern[0]%len(first)].Apply() != nil {
				return
			}
			o.Probe("second-enumeration-after-a-kept-move")
			kept := tr.Newick()
			keptInner, err := splitKeysOf(kept, false)
			if err != nil {
				return
			}
			n2, dup := 0, map[string]bool{}
			rearranger.Rearrange(tr, func(re tree.Rearrangement) bool {
				n2++
				if err := re.Apply(); err != nil {
					o.Fail("nni:second-enumeration", "after a kept move, proposal %d of the next enumeration: Apply fails: %v\n%s\nkept %s", n2, err, ctx(), kept)
					return false
				}
				after, _ := splitKeysOf(tr.Newick(), false)
				out, in := setDiff(keptInner, after)
				key := strings.Join(after, ";")
				if len(out) != 1 || len(in) != 1 || dup[key] {
					o.Fail("nni:second-enumeration", "after a kept move, proposal %d of the next enumeration lacks %v and adds %v (duplicate: %v)\n%s\nkept %s\nnow  %s", n2, out, in, dup[key], ctx(), kept, safeText(tr))
					return false
				}
				dup[key] = true
				if err := re.Undo(); err != nil || tr.Newick() != kept {
					o.Fail("nni:second-enumeration", "after a kept move, proposal %d of the next enumeration: Undo fails (%v) or does not restore the tree\n%s\nkept %s\nnow  %s", n2, err, ctx(), kept, safeText(tr))
					return false
				}
				return true
			})
			if len(o.Viols) == 0 && n2 != 2*nbranches {
				o.Fail("nni:second-enumeration", "after a kept move the next enumeration makes %d proposals, %d expected\n%s\nkept %s", n2, 2*nbranches, ctx(), kept)
			}
		})
	}
	if len(o.Viols) == 0 {
		checkNNICommand(t, o, c, orig)
	}
}

// checkNNICommand runs `gotree nni` in-process on a file of one to three trees (the case's tree and re-rooted copies of its
// source) and checks the neighbours it prints, tree by tree.
func checkNNICommand(t *testing.T, o *Outcome, c *NNICase, orig string) {
	inputs := []string{orig}
	if len(c.Pattern) > 1 {
		inputs = append(inputs, c.Tree)
	}
	if len(c.Pattern) > 3 {
		if m, err := parseRefTipRoot(c.Tree); err == nil {
			inputs = append(inputs, represent(m, mathRnd{rand.New(rand.NewSource(int64(len(orig))))}).Newick())
		}
	}
	dir, err := os.MkdirTemp("", "verifc17")
	if err != nil {
		panic("harness: " + err.Error())
	}
	defer os.RemoveAll(dir)
	os.WriteFile(filepath.Join(dir, "in.nw"), []byte(strings.Join(inputs, "\n")+"\n"), 0644)
	tpl := &detTemplate{name: "nni", args: []string{"nni", "-i", "@in.nw", "--seed", "1", "-o", "@OUT"}}
	res := runInProcess(t, dir, tpl, &DetCase{Seed: 1, Threads: 1}, Seam{MapSeed: 1, Epoch: 1000, Sched: seqSched()}, "nni")
	o.Probe("nni-command")
	if len(inputs) > 1 {
		o.Probe("nni-command-several-trees")
	}
	if res.status != "ok" {
		o.Fail("nni:command-failed", "gotree nni fails (%s) on\n%s", res.status, strings.Join(inputs, "\n"))
		return
	}
	var lines []string
	for _, ln := range strings.Split(res.outs["OUT"], "\n") {
		if strings.TrimSpace(ln) != "" {
			lines = append(lines, ln)
		}
	}
	pos := 0
	for ti, in := range inputs {
		m, err := ParseRef(in)
		if err != nil {
			return
		}
		inner, _ := splitKeysOf(in, false)
		want := 0
		tr := mustParse(in)
		for _, e := range tr.Edges() {
			if e.Left().Nneigh() == 3 && e.Right().Nneigh() == 3 {
				want += 2
			}
		}
		_ = m
		seen := map[string]bool{}
		for k := 0; k < want; k++ {
			if pos >= len(lines) {
				o.Fail("nni:command-count", "gotree nni prints %d trees, at least %d expected for tree %d of %d\ninput:\n%s\noutput:\n%s", len(lines), pos+1, ti, len(inputs), strings.Join(inputs, "\n"), res.outs["OUT"])
				return
			}
			got, err := splitKeysOf(lines[pos], false)
			pos++
			if err != nil {
				o.Fail("nni:command-output-unreadable", "gotree nni prints %q", lines[pos-1])
				return
			}
			out, add := setDiff(inner, got)
			if len(out) != 1 || len(add) != 1 {
				o.Fail("nni:command-not-a-neighbour", "line %d of the output is not an NNI neighbour of input tree %d (lacks %v, adds %v)\ninput:\n%s\noutput:\n%s", pos, ti, out, add, strings.Join(inputs, "\n"), res.outs["OUT"])
				return
			}
			key := strings.Join(got, ";")
			if seen[key] {
				o.Fail("nni:command-duplicate", "line %d of the output repeats a neighbour of input tree %d\ninput:\n%s\noutput:\n%s", pos, ti, strings.Join(inputs, "\n"), res.outs["OUT"])
				return
			}
			seen[key] = true
		}
	}
	if pos != len(lines) {
		o.Fail("nni:command-count", "gotree nni prints %d trees, %d expected (two per inner branch of each input tree)\ninput:\n%s\noutput:\n%s", len(lines), pos, strings.Join(inputs, "\n"), res.outs["OUT"])
	}
}
