package sim

// C04 — branch split indexes and hashes always describe the actual tree.
// Engines: c04hist (indexes after any edit history), c04map (equality/hash agreement, split index vs. a
// plain map through insertions and resizes, quartets), c04lin (concurrent clients of the locked hash map,
// linearizability with porcupine).

import (
	"fmt"
	"sort"
	"strings"
	"testing"
	"time"

	"github.com/anishathalye/porcupine"
	"github.com/evolbioinfo/gotree/hashmap"
	"github.com/evolbioinfo/gotree/tree"
	"pgregory.net/rapid"
	"sim/sched"
	"verifhook"
)

func init() {
	Register(&Engine{
		Name: "c04hist", Prop: "C04",
		Rule: "the histories of engine c03 (start tree × 1..30 editing steps); after every successful step ReinitIndexes() is called and, for every branch, the tip " +
			"ranking, bitset, tip counts on both sides and topological depth are compared with the split obtained by cutting that branch in a walk of the live tree. " +
			"Non-trivial: ≥ 2 successful structure-changing steps; distinct = distinct (start-shape class, sequence of successful operation kinds)",
		Gen: func(rt *rapid.T, tier string) any {
			return &HistCase{Start: genTreeText(rt, "t", 3, 12, false), Ops: genOps(rt, histOps, 1, 30)}
		},
		New:       func() any { return &HistCase{} },
		Exec:      func(t *testing.T, c any, o *Outcome) { execHist(c.(*HistCase), o, true) },
		Real:      []string{"Tree.ReinitIndexes / UpdateTipIndex / ClearBitSets / UpdateBitSet / ComputeEdgeHashes", "all public editing operations of package tree"},
		Simulated: []string{"the operation history before re-indexing", "global math/rand seam seeded per step"},
		Expected:  []string{"op-ok:prune", "op-ok:graft", "op-ok:insertidentical", "op-ok:nniapply", "op-ok:outgroup", "op-ok:rename", "op-ok:shuffle"},
	})
	Register(&Engine{
		Name: "c04map", Prop: "C04",
		Rule: "case = (2..4 trees on the same 4..11 taxa: SPR-related, then re-rooted / rotated / rooted on a branch in the text and re-rooted again through the API; " +
			"all pairs of their branches; a 0..60-step history of AddEdgeCount / PutEdgeValue / Value / Edges on a split index of initial capacity 1..256 and load " +
			"factor 0.1..1.5, every key presented through a branch object drawn from any of the trees; two quartets and all 24 presentations of each). Oracles: " +
			"SameBipartition / HashEquals ⇔ same split (computed from the walk), same split ⇒ equal HashCode; index vs. a plain Go map keyed by the canonical split " +
			"after every step; quartet Compare vs. pair-of-pairs equality, HashEquals ⇒ equal HashCode. Non-trivial: the index was resized and a lookup went " +
			"through another presentation of the stored split; distinct = distinct (trees, capacity, load factor, history)",
		Gen:  genC04Map,
		New:  func() any { return &MapCase{} },
		Exec: execC04Map,
		Enum: func(tier string, batch, nbatch int) []any {
			if batch != 0 {
				return nil
			}
			// one enumerated case: every pair of quartets on different taxa (ids 0..44) whose hash codes collide
			return []any{&MapCase{QuartetScan: 45}}
		},
		Real: []string{"Edge.HashCode / HashEquals / SameBipartition", "tree.EdgeIndex", "hashmap.HashMap (Value, PutValue, rehash, KeyValues)", "Quartet.HashCode / HashEquals / Compare",
			"Tree.ReinitIndexes", "Tree.Reroot / RerootOutGroup"},
		Simulated: []string{"the insertion / lookup history", "initial capacity and load factor", "which presentation of a split is used as key"},
		Expected:  []string{"resized", "lookup-through-other-presentation", "overwrite", "rooted-tree-in-pool", "equal-size-sides"},
	})
	Register(&Engine{
		Name: "c04lin", Prop: "C04",
		Rule: "case = (2..3 simulated clients × 3..7 operations PutValue / Value on one hashmap.HashMap of capacity 1..4 with colliding keys (≤ 3 keys, unique values), " +
			"every statement of package hashmap a pre-emption point, schedule); the invoke/return history stamped with scheduler decision numbers is checked for " +
			"linearizability against a sequential map with porcupine (timeout ⇒ inconclusive, never reported). Non-trivial: ≥ 1 context switch inside an operation; " +
			"distinct = distinct scheduler trace hashes",
		Gen:       genC04Lin,
		New:       func() any { return &LinCase{} },
		Exec:      execC04Lin,
		Real:      []string{"hashmap.HashMap.Value / PutValue / rehash under sync.RWMutex"},
		Simulated: []string{"choice of the runnable client at every statement of package hashmap and at every lock acquisition"},
		Expected:  []string{"switch-inside-operation", "porcupine-ok", "rehash-during-history"},
	})
}

// ---- c04map ---------------------------------------------------------------------------------------------

type MapStep struct {
	Op int `json:"op"` // 0 AddEdgeCount, 1 PutEdgeValue, 2 Value, 3 Edges(min,max)
	E  int `json:"e"`  // branch of the pool (modulo)
	C  int `json:"c"`
	L  int `json:"l"`
}

type MapCase struct {
	Trees  []string  `json:"trees"`
	Reroot []int     `json:"reroot"` // per tree: 0 none, k>0: API re-rooting (odd: at inner node k/2, even: outgroup tip k/2)
	Cap    uint64    `json:"cap"`
	LF     float64   `json:"lf"`
	Steps  []MapStep `json:"steps"`
	Q      [2][4]int `json:"q"`
	// QuartetScan > 0: instead of the above, scan all 4-subsets of taxon ids 0..QuartetScan-1 for pairs whose HashCode collides and
	// require HashEquals to tell them apart (different taxa are different keys of a quartet index, collision or not)
	QuartetScan int `json:"quartetscan,omitempty"`
}

func genC04Map(rt *rapid.T, tier string) any {
	r := rapidRnd{rt}
	c := &MapCase{}
	tx := drawTaxaNames(rt, drawTaxa(rt, 4, 11))
	base := RandomTree(tx, r, rapid.IntRange(2, 3).Draw(rt, "maxdeg"), true)
	for i := rapid.IntRange(2, 4).Draw(rt, "ntrees"); i > 0; i-- {
		m := related(base, r, 2, 0)
		if rapid.IntRange(0, 3).Draw(rt, "rootit") == 0 {
			all := m.all()
			m = rootAtRandom(m, all, r)
		}
		c.Trees = append(c.Trees, m.Newick())
		c.Reroot = append(c.Reroot, rapid.IntRange(0, 20).Draw(rt, "reroot"))
	}
	c.Cap = uint64(rapid.SampledFrom([]int{1, 2, 3, 4, 5, 7, 8, 16, 64, 256}).Draw(rt, "cap"))
	c.LF = float64(rapid.IntRange(1, 15).Draw(rt, "lf")) / 10
	n := rapid.IntRange(0, 60).Draw(rt, "nsteps")
	for i := 0; i < n; i++ {
		c.Steps = append(c.Steps, MapStep{Op: rapid.IntRange(0, 3).Draw(rt, "op"), E: rapid.IntRange(0, 200).Draw(rt, "e"),
			C: rapid.IntRange(0, 9).Draw(rt, "c"), L: rapid.IntRange(0, 15).Draw(rt, "l")})
	}
	for q := 0; q < 2; q++ {
		p := rapid.Permutation([]int{0, 1, 2, 3, 4, 5}).Draw(rt, "qtaxa")
		copy(c.Q[q][:], p[:4])
	}
	return c
}

// splitKeyOfEdge computes the canonical split of a branch from a walk of the live tree.
func splitKeyOfEdge(e *tree.Edge, all []string) (key string, balanced bool) {
	var below func(n, p *tree.Node) []string
	below = func(n, p *tree.Node) []string {
		if n.Nneigh() == 1 {
			return []string{n.Name()}
		}
		var out []string
		for _, m := range n.Neigh() {
			if m != p {
				out = append(out, below(m, n)...)
			}
		}
		return out
	}
	side := below(e.Right(), e.Left())
	set := map[string]bool{}
	for _, s := range side {
		set[s] = true
	}
	var ks []string
	for _, s := range all {
		if set[s] != set[all[0]] {
			ks = append(ks, s)
		}
	}
	return strings.Join(ks, "|"), 2*len(side) == len(all)
}

type poolEdge struct {
	t    int
	e    *tree.Edge
	k    string
	desc string
}

func quartetScan(o *Outcome, n int) {
	byHash := map[uint64][][4]uint{}
	for a := 0; a < n; a++ {
		for b := a + 1; b < n; b++ {
			for c := b + 1; c < n; c++ {
				for d := c + 1; d < n; d++ {
					q := &tree.Quartet{T1: uint(a), T2: uint(b), T3: uint(c), T4: uint(d)}
					h := q.HashCode()
					byHash[h] = append(byHash[h], [4]uint{uint(a), uint(b), uint(c), uint(d)})
					o.Steps++
				}
			}
		}
	}
	for _, sets := range byHash {
		if len(sets) < 2 {
			continue
		}
		o.Probe("quartet-hash-collision-between-different-taxa")
		o.Nontrivial = true
		for i := range sets {
			for j := range sets {
				if i == j {
					continue
				}
				// three topologies of one set against the first presentation of the other
				for _, p := range [][4]int{{0, 1, 2, 3}, {0, 2, 1, 3}, {0, 3, 1, 2}} {
					x := &tree.Quartet{T1: sets[i][p[0]], T2: sets[i][p[1]], T3: sets[i][p[2]], T4: sets[i][p[3]]}
					y := &tree.Quartet{T1: sets[j][0], T2: sets[j][1], T3: sets[j][2], T4: sets[j][3]}
					if x.HashEquals(hashmap.Hasher(y)) || x.Compare(y) != tree.QUARTET_DIFF {
						o.Fail("quartet:different-taxa-equal", "quartets %v and %v are on different taxa (their hash codes collide: %d) but compare equal for the index (Compare = %d)", *x, *y, x.HashCode(), x.Compare(y))
						return
					}
				}
			}
		}
	}
}

func execC04Map(t *testing.T, cc any, o *Outcome) {
	c := cc.(*MapCase)
	if c.QuartetScan > 0 {
		guard(o, "quartet-scan", func() { quartetScan(o, c.QuartetScan) })
		o.Key = "quartet-scan"
		return
	}
	ok := guard(o, "c04map", func() {
		var pool []poolEdge
		var all []string
		for i, text := range c.Trees {
			tr := mustParse(text)
			if i == 0 {
				all = sortedTipNames(tr)
			}
			if k := c.Reroot[i]; k > 0 {
				if k%2 == 1 {
					if in := innerNodesOf(tr, 3, true); len(in) > 0 {
						if err := tr.Reroot(in[(k/2)%len(in)]); err != nil {
							panic("harness: reroot: " + err.Error())
						}
					}
				} else {
					_ = tr.RerootOutGroup(false, false, all[(k/2)%len(all)])
				}
			}
			if tr.Rooted() {
				o.Probe("rooted-tree-in-pool")
			}
			if err := tr.ReinitIndexes(); err != nil {
				panic("harness: " + err.Error())
			}
			for _, e := range tr.Edges() {
				k, bal := splitKeyOfEdge(e, all)
				if bal {
					o.Probe("equal-size-sides")
				}
				pool = append(pool, poolEdge{i, e, k, fmt.Sprintf("tree %d (%s), branch above %q", i, tr.Newick(), e.Right().Name())})
			}
		}
		// equality <=> same split; same split => same hash
		for i := range pool {
			for j := range pool {
				same := pool[i].k == pool[j].k
				if got := pool[i].e.SameBipartition(pool[j].e); got != same {
					o.Fail("SameBipartition", "SameBipartition is %v, the splits are {%s} and {%s}\n  %s\n  %s", got, pool[i].k, pool[j].k, pool[i].desc, pool[j].desc)
					return
				}
				if got := pool[i].e.HashEquals(hashmap.Hasher(pool[j].e)); got != same {
					o.Fail("HashEquals", "HashEquals is %v, the splits are {%s} and {%s}\n  %s\n  %s", got, pool[i].k, pool[j].k, pool[i].desc, pool[j].desc)
					return
				}
				if same && pool[i].e.HashCode() != pool[j].e.HashCode() {
					o.Fail("equal-split-different-hash", "the same split {%s} hashes to %d and %d\n  %s\n  %s", pool[i].k, pool[i].e.HashCode(), pool[j].e.HashCode(), pool[i].desc, pool[j].desc)
					return
				}
			}
		}
		// the split index behaves like a plain map
		type mv struct {
			count int
			len   float64
			by    int
		}
		idx := tree.NewEdgeIndex(c.Cap, c.LF)
		model := map[string]*mv{}
		var hist []string
		for si, s := range c.Steps {
			p := pool[s.E%len(pool)]
			o.Steps++
			switch s.Op {
			case 0:
				hist = append(hist, fmt.Sprintf("AddEdgeCount({%s} via tree %d)", p.k, p.t))
				if err := idx.AddEdgeCount(p.e); err != nil {
					o.Fail("index:error", "AddEdgeCount fails: %v", err)
					return
				}
				if m := model[p.k]; m != nil {
					m.count++
					m.len += p.e.Length()
				} else {
					model[p.k] = &mv{1, p.e.Length(), p.t}
				}
			case 1:
				l := float64(s.L) / 4
				hist = append(hist, fmt.Sprintf("PutEdgeValue({%s} via tree %d, %d, %v)", p.k, p.t, s.C, l))
				if err := idx.PutEdgeValue(p.e, s.C, l); err != nil {
					o.Fail("index:error", "PutEdgeValue fails: %v", err)
					return
				}
				if model[p.k] != nil {
					o.Probe("overwrite")
				}
				model[p.k] = &mv{s.C, l, p.t}
			case 2:
				hist = append(hist, fmt.Sprintf("Value({%s} via tree %d)", p.k, p.t))
				v, found := idx.Value(p.e)
				m := model[p.k]
				if m != nil && m.by != p.t {
					o.Probe("lookup-through-other-presentation")
					if uint64(len(model)) > c.Cap {
						o.Nontrivial = true
					}
				}
				if found != (m != nil) || (found && (v.Count != m.count || v.Len != m.len)) {
					o.Fail("index:value", "step %d: Value finds %v %+v, a plain map holds %+v\ncapacity %d load factor %v\nhistory:\n  %s", si, found, v, m, c.Cap, c.LF, strings.Join(hist, "\n  "))
					return
				}
			case 3:
				lo, hi := s.C%4, s.C%4+s.L%6
				want := 0
				for _, m := range model {
					if (m.count > lo && m.count <= hi) || m.count == hi {
						want++
					}
				}
				hist = append(hist, fmt.Sprintf("Edges(%d,%d)", lo, hi))
				if got := len(idx.Edges(lo, hi)); got != want {
					o.Fail("index:edges-range", "step %d: Edges(%d,%d) returns %d entries, a plain map holds %d with count in ]%d,%d]\ncapacity %d load factor %v\nhistory:\n  %s", si, lo, hi, got, want, lo, hi, c.Cap, c.LF, strings.Join(hist, "\n  "))
					return
				}
			}
			if n := len(idx.Edges(-1, 1<<30)); n != len(model) {
				o.Fail("index:size", "step %d: the index holds %d entries, a plain map %d\ncapacity %d load factor %v\nhistory:\n  %s", si, n, len(model), c.Cap, c.LF, strings.Join(hist, "\n  "))
				return
			}
		}
		if float64(len(model)) >= float64(c.Cap)*c.LF {
			o.Probe("resized")
		}
		// quartets: all 24 presentations of two quartets
		var pres [2][]*tree.Quartet
		for q := 0; q < 2; q++ {
			permute4(c.Q[q], func(p [4]int) {
				pres[q] = append(pres[q], &tree.Quartet{T1: uint(p[0]), T2: uint(p[1]), T3: uint(p[2]), T4: uint(p[3])})
			})
		}
		allq := append(append([]*tree.Quartet{}, pres[0]...), pres[1]...)
		for _, a := range allq {
			for _, b := range allq {
				want := quartetRelation(a, b)
				if got := a.Compare(b); got != want {
					o.Fail("quartet:compare", "Compare(%v, %v) = %d, want %d (0 same topology, 1 same taxa other topology, 2 different taxa)", *a, *b, got, want)
					return
				}
				if a.HashEquals(hashmap.Hasher(b)) != (want != tree.QUARTET_DIFF) {
					o.Fail("quartet:hashequals", "HashEquals(%v, %v) = %v, relation is %d", *a, *b, a.HashEquals(hashmap.Hasher(b)), want)
					return
				}
				if a.HashEquals(hashmap.Hasher(b)) && a.HashCode() != b.HashCode() {
					o.Fail("quartet:equal-different-hash", "quartets %v and %v are equal for the index but hash to %d and %d", *a, *b, a.HashCode(), b.HashCode())
					return
				}
			}
		}
		// and the hash map keyed by quartets finds every presentation
		hm := hashmap.NewHashMap(c.Cap, c.LF)
		hm.PutValue(pres[0][0], "q0")
		for _, b := range pres[0] {
			if v, found := hm.Value(b); !found || v.(string) != "q0" {
				o.Fail("quartet:index-lookup", "a quartet stored as %v is not found through its presentation %v (capacity %d)", *pres[0][0], *b, c.Cap)
				return
			}
		}
	})
	_ = ok
	o.Key = fmt.Sprintf("%x", hashString(fmt.Sprint(c.Trees, c.Reroot, c.Cap, c.LF, c.Steps)))
}

func hashString(s string) uint64 {
	var h uint64 = 14695981039346656037
	for i := 0; i < len(s); i++ {
		h ^= uint64(s[i])
		h *= 1099511628211
	}
	return h
}

func permute4(a [4]int, f func([4]int)) {
	var rec func(k int)
	rec = func(k int) {
		if k == 4 {
			f(a)
			return
		}
		for i := k; i < 4; i++ {
			a[k], a[i] = a[i], a[k]
			rec(k + 1)
			a[k], a[i] = a[i], a[k]
		}
	}
	rec(0)
}

func quartetRelation(a, b *tree.Quartet) int {
	pair := func(x, y uint) [2]uint {
		if x > y {
			x, y = y, x
		}
		return [2]uint{x, y}
	}
	sa := []uint{a.T1, a.T2, a.T3, a.T4}
	sb := []uint{b.T1, b.T2, b.T3, b.T4}
	sort.Slice(sa, func(i, j int) bool { return sa[i] < sa[j] })
	sort.Slice(sb, func(i, j int) bool { return sb[i] < sb[j] })
	for i := range sa {
		if sa[i] != sb[i] {
			return tree.QUARTET_DIFF
		}
	}
	a1, a2, b1, b2 := pair(a.T1, a.T2), pair(a.T3, a.T4), pair(b.T1, b.T2), pair(b.T3, b.T4)
	if (a1 == b1 && a2 == b2) || (a1 == b2 && a2 == b1) {
		return tree.QUARTET_EQUALS
	}
	return tree.QUARTET_CONFLICT
}

// ---- c04lin ---------------------------------------------------------------------------------------------

type LinOp struct {
	Put bool `json:"put"`
	K   int  `json:"k"`
}

type LinCase struct {
	Clients [][]LinOp `json:"clients"`
	Cap     uint64    `json:"cap"`
	Sched   SchedCase `json:"sched"`
}

func genC04Lin(rt *rapid.T, tier string) any {
	c := &LinCase{Cap: uint64(rapid.IntRange(1, 4).Draw(rt, "cap"))}
	for i := rapid.IntRange(2, 3).Draw(rt, "nclients"); i > 0; i-- {
		var ops []LinOp
		for j := rapid.IntRange(3, 7).Draw(rt, "nops"); j > 0; j-- {
			ops = append(ops, LinOp{Put: rapid.Bool().Draw(rt, "put"), K: rapid.IntRange(0, 2).Draw(rt, "key")})
		}
		c.Clients = append(c.Clients, ops)
	}
	c.Sched = genSched(rt)
	c.Sched.SitePct = 100
	return c
}

type linKey int

func (k linKey) HashCode() uint64                 { return uint64(k) % 2 } // forced collisions
func (k linKey) HashEquals(o hashmap.Hasher) bool { return k == o.(linKey) }

type linIn struct {
	put  bool
	k, v int
}
type linOut struct {
	v  int
	ok bool
}

var linModel = porcupine.Model{
	Init: func() interface{} { return [3]int{-1, -1, -1} },
	Step: func(state, in, out interface{}) (bool, interface{}) {
		m := state.([3]int)
		i, o := in.(linIn), out.(linOut)
		if i.put {
			m[i.k] = i.v
			return true, m
		}
		if m[i.k] < 0 {
			return !o.ok, m
		}
		return o.ok && o.v == m[i.k], m
	},
	Equal: func(a, b interface{}) bool { return a.([3]int) == b.([3]int) },
	DescribeOperation: func(in, out interface{}) string {
		i, o := in.(linIn), out.(linOut)
		if i.put {
			return fmt.Sprintf("put(%d,%d)", i.k, i.v)
		}
		return fmt.Sprintf("get(%d)=%d,%v", i.k, o.v, o.ok)
	},
}

// logical clock: only one goroutine runs at a time under the scheduler.
type schedClock struct{ n int64 }

//go:norace
func (c *schedClock) tick() int64 { c.n++; return c.n }

func execC04Lin(t *testing.T, cc any, o *Outcome) {
	c := cc.(*LinCase)
	var ops []porcupine.Operation
	nclients := len(c.Clients)
	nput := 0
	res := sched.Run(t, c.Sched.Config(400000), func() {
		hm := hashmap.NewHashMap(c.Cap, 0.75)
		clk := &schedClock{}
		done := make(chan []porcupine.Operation, nclients)
		for ci := range c.Clients {
			ci := ci
			id := verifhook.Spawn("harness.client")
			go func() {
				verifhook.GoStart(id)
				defer verifhook.GoEnd()
				var mine []porcupine.Operation
				for i, op := range c.Clients[ci] {
					verifhook.Yield("client.invoke", "stmt")
					call := clk.tick()
					in := linIn{put: op.Put, k: op.K, v: ci*100 + i}
					var out linOut
					if op.Put {
						hm.PutValue(linKey(op.K), in.v)
					} else if v, ok := hm.Value(linKey(op.K)); ok {
						out = linOut{v.(int), true}
					}
					ret := clk.tick()
					mine = append(mine, porcupine.Operation{ClientId: ci, Input: in, Call: call, Output: out, Return: ret})
					verifhook.Yield("client.return", "stmt")
				}
				verifhook.Yield("client.done", "send")
				done <- mine
			}()
		}
		for range c.Clients {
			ops = append(ops, <-done...)
			verifhook.Yield("harness.collect", "recv")
		}
	})
	o.Steps = int64(res.Steps)
	for _, cl := range c.Clients {
		for _, op := range cl {
			if op.Put {
				nput++
			}
		}
	}
	what := "concurrent clients of hashmap.HashMap"
	for _, p := range res.Panics {
		o.Fail("panic:"+normPanic(p.Value, p.Stack), "%s: panic in client %s: %s\n%s", what, p.G, p.Value, trimStack(p.Stack))
	}
	if res.Deadlock && len(res.Panics) == 0 {
		o.Fail("deadlock:hashmap", "%s: all clients blocked: %v", what, res.Blocked)
	}
	if res.Budget {
		o.Fail("step-budget:hashmap", "%s: more than %d decisions", what, res.Steps)
	}
	if len(o.Viols) > 0 {
		return
	}
	// a context switch inside an operation = two operations overlap in the recorded history
	sort.Slice(ops, func(i, j int) bool { return ops[i].Call < ops[j].Call })
	for i := 1; i < len(ops); i++ {
		if ops[i].Call < ops[i-1].Return {
			o.Probe("switch-inside-operation")
			o.Nontrivial = true
			break
		}
	}
	if nput >= 2 && c.Cap <= 2 {
		o.Probe("rehash-during-history")
	}
	o.Key = fmt.Sprintf("%016x", res.Hash)
	r, info := porcupine.CheckOperationsVerbose(linModel, ops, 20*time.Second)
	switch r {
	case porcupine.Ok:
		o.Probe("porcupine-ok")
	case porcupine.Unknown:
		o.Probe("porcupine-timeout-inconclusive")
	case porcupine.Illegal:
		var lines []string
		for _, op := range ops {
			lines = append(lines, fmt.Sprintf("client %d [%d,%d] %s", op.ClientId, op.Call, op.Return, linModel.DescribeOperation(op.Input, op.Output)))
		}
		_ = info
		o.Fail("not-linearizable:hashmap", "%s: the recorded history has no sequential explanation\n  %s", what, strings.Join(lines, "\n  "))
	}
}
