package sim

import (
	"fmt"

	"github.com/evolbioinfo/gotree/tree"
)

// CheckIndexes: after ReinitIndexes, every branch's recorded split equals the split of the walk.
func CheckIndexes(t *tree.Tree) string {
	if err := t.ReinitIndexes(); err != nil {
		return "" // duplicate tip names etc.: nothing promised
	}
	all := t.Tips()
	ntips := len(all)
	var below func(n, parent *tree.Node) []*tree.Node
	below = func(n, parent *tree.Node) []*tree.Node {
		if n.Nneigh() == 1 && parent != nil {
			return []*tree.Node{n}
		}
		var out []*tree.Node
		for _, m := range n.Neigh() {
			if m != parent {
				out = append(out, below(m, n)...)
			}
		}
		return out
	}
	sorted := t.SortedTips()
	for rank, tip := range sorted {
		idx, err := t.TipIndex(tip.Name())
		if err != nil || idx != rank {
			return fmt.Sprintf("TipIndex(%s)=%d,%v want rank %d", tip.Name(), idx, err, rank)
		}
	}
	for _, e := range t.Edges() {
		b := below(e.Right(), e.Left())
		in := map[*tree.Node]bool{}
		for _, x := range b {
			in[x] = true
		}
		if e.NumTipsRight() != len(b) || e.NumTipsLeft() != ntips-len(b) {
			return fmt.Sprintf("branch above %q: counts %d/%d, actual %d/%d", e.Right().Name(), e.NumTipsLeft(), e.NumTipsRight(), ntips-len(b), len(b))
		}
		d, err := e.TopoDepth()
		want := len(b)
		if ntips-len(b) < want {
			want = ntips - len(b)
		}
		if err != nil || d != want {
			return fmt.Sprintf("TopoDepth %d,%v want %d", d, err, want)
		}
		if e.Bitset() == nil || int(e.Bitset().Len()) != ntips {
			return "bitset width"
		}
		for _, tip := range all {
			idx, _ := t.TipIndex(tip.Name())
			if e.Bitset().Test(uint(idx)) != in[tip] {
				return fmt.Sprintf("branch above %q: bit of %s is %v", e.Right().Name(), tip.Name(), !in[tip])
			}
		}
	}
	return ""
}
