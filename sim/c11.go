package sim

// C11 — threaded computations are schedule-independent, race-free and terminate.

import (
	"fmt"
	"math"
	"math/rand"
	"os"
	"path/filepath"
	"regexp"
	"strings"
	"testing"

	"pgregory.net/rapid"
	"sim/sched"
)

func init() {
	Register(&Engine{
		Name: "c11", Prop: "C11",
		Rule: "case = (algorithm ∈ {Compare, CompareWeighted, FBP, TBE}, reference tree, 0..10 related trees on 4..14 (sometimes 60..130) taxa under drawn naming schemes, optional fault record " +
			"(error record / foreign, missing, extra taxon / duplicate tip / malformed text) at a drawn position — sometimes up to five of them, sometimes an empty stream —, feed (real reader goroutine over Newick or Nexus, or harness " +
			"producer), thread count ∈ {1,2,3,4,8,16}, schedule = strategy + choice vector + seed + enabled shared-variable sites); executed twice: " +
			"sequentially (1 thread, run-to-block) and under the drawn schedule (in either order). Non-trivial: ≥ 2 worker goroutines each received ≥ 1 record and ≥ 1 context " +
			"switch happened; distinct = distinct scheduler trace hashes (sequence of (goroutine, site, kind)) among those",
		Gen: func(rt *rapid.T, tier string) any {
			if rapid.IntRange(0, 2399).Draw(rt, "huge") == 613 {
				return genHugePipe(rt)
			}
			return genPipe(rt, tier, pipeGenOpts{algos: []string{"compare", "compareW", "fbp", "tbe"}, faults: true, minTax: 4, maxTax: 14, maxTrees: 14, rootedRef: true,
				maxFaults: 5, zeroTrees: true, nexusFeed: true})
		},
		New:  func() any { return &PipeCase{} },
		Exec: execC11,
		Real: []string{"tree.Compare", "tree.CompareWeighted", "support.FBP", "support.TBE", "utils.ReadMultiTrees reader goroutine", "hashmap/EdgeIndex", "channels, WaitGroup, Mutex, bufio"},
		Simulated: []string{"choice of the runnable goroutine at every channel/WaitGroup/lock/shared-variable point", "input byte stream (chunking, buffer size)",
			"position and kind of the faulty record"},
	})
}

func sameFloats(a, b []float64) bool {
	if len(a) != len(b) {
		return false
	}
	for i := range a {
		if a[i] != b[i] && !(math.IsNaN(a[i]) && math.IsNaN(b[i])) {
			return false
		}
	}
	return true
}

// genHugePipe: about one case in a thousand has just over a thousand taxa (code paths meant for large inputs), two or three
// trees, a producer feed and a few threads. The trees come from a local generator seeded by one drawn number.
func genHugePipe(rt *rapid.T) *PipeCase {
	r := rand.New(rand.NewSource(int64(rapid.IntRange(1, 1<<30).Draw(rt, "hugeseed"))))
	n := rapid.SampledFrom([]int{1001, 1025}).Draw(rt, "hugesize")
	base := RandomTree(taxa(n, "h"), r, 2, true)
	pc := &PipeCase{Algo: rapid.SampledFrom([]string{"tbe", "fbp", "compare"}).Draw(rt, "hugealgo"), Feed: "chan", BufSz: 4096, Chunk: 4096}
	pc.Ref = base.Newick()
	for i := rapid.IntRange(2, 3).Draw(rt, "hugetrees"); i > 0; i-- {
		pc.Recs = append(pc.Recs, Rec{Text: related(base, r, 3, 1).Newick()})
	}
	pc.Cpus = rapid.SampledFrom([]int{2, 3, 4}).Draw(rt, "hugecpus")
	pc.Sched = genSched(rt)
	return pc
}

func execC11(t *testing.T, c any, o *Outcome) {
	pc := c.(*PipeCase)
	fpos, fkind := pc.hasFault()
	if len(pc.Ref) > 20000 {
		o.Probe("over-a-thousand-taxa")
	}
	var base, got *PipeResult
	if pc.Sched.Seed%2 == 0 {
		// the scheduled run comes first: whatever the process memoises is then first touched by several workers
		o.Probe("threaded-run-first")
		got = runPipeT(t, pc, pc.Cpus, pc.Sched, 4_000_000, nominalStmts)
		base = runPipe(t, pc, 1, seqSched(), 2_000_000)
	} else {
		// sequential reference run first: it gives the step budget and the statement count the pre-emption points are scaled to
		base = runPipe(t, pc, 1, seqSched(), 2_000_000)
		got = runPipeT(t, pc, pc.Cpus, pc.Sched, base.Sched.Steps*100+20000, base.Sched.Stmts)
	}
	okBase := liveness(o, base, pc.Algo+" (1 thread, sequential schedule)")
	okGot := liveness(o, got, fmt.Sprintf("%s (%d threads)", pc.Algo, pc.Cpus))
	o.Steps = int64(base.Sched.Steps + got.Sched.Steps)
	o.Key = fmt.Sprintf("%s/%d/%016x", pc.Algo, pc.Cpus, got.Sched.Hash)
	o.Nontrivial = got.Sched.Switches > 0 && got.Sched.Busy >= 2
	if fkind != "" {
		o.Fault(fkind)
	}
	if got.Sched.Busy >= 2 {
		o.Probe("two-or-more-workers-had-work")
	}
	if pc.Cpus > len(pc.Recs) {
		o.Probe("more-threads-than-trees")
	}
	if got.Sched.Preempted > 0 {
		o.Probe("preempted-inside-callee")
	}
	if !okBase || !okGot {
		return
	}
	what := fmt.Sprintf("%s with %d threads vs 1 thread", pc.Algo, pc.Cpus)
	if len(pc.Recs) == 0 {
		// an empty stream: whether that is an error is the reader's business; the two runs must agree and terminate
		o.Probe("empty-stream")
		if (base.Err == nil) != (got.Err == nil) || len(base.Recs) != len(got.Recs) || base.RefOut != got.RefOut {
			o.Fail("schedule-dependent:"+pc.Algo+":empty-stream", "%s on an empty stream: error %v / %v, %d / %d records, output %q / %q", what, base.Err, got.Err, len(base.Recs), len(got.Recs), base.RefOut, got.RefOut)
		}
		return
	}
	// error reaches the caller
	switch pc.Algo {
	case "compare", "compareW":
		for _, pr := range []*PipeResult{base, got} {
			if pr.Err != nil {
				o.Fail("compare:setup-error", "%s: unexpected error from the call itself: %v", what, pr.Err)
				return
			}
			if len(pr.Dup) > 0 {
				o.Fail("compare:duplicate-record", "%s: tree ids reported twice: %v", what, pr.Dup)
			}
		}
		if fkind != "" {
			for name, pr := range map[string]*PipeResult{"1 thread": base, fmt.Sprint(pc.Cpus, " threads"): got} {
				r, ok := pr.Recs[fpos]
				if pc.Nexus && pc.Feed == "reader" {
					// a Nexus document is parsed as a whole: a malformed tree anywhere gives one error record (id 0) and no tree
					anyErr := false
					for _, x := range pr.Recs {
						anyErr = anyErr || x.Err != ""
					}
					if !anyErr {
						o.Fail("error-lost:"+pc.Algo+":"+fkind, "%s (%s, Nexus input): a %s tree at position %d but no record carries an error", pc.Algo, name, fkind, fpos)
					}
					continue
				}
				if !ok {
					o.Fail("error-lost:"+pc.Algo+":"+fkind, "%s (%s): no record for the %s tree at position %d", pc.Algo, name, fkind, fpos)
				} else if r.Err == "" {
					o.Fail("error-lost:"+pc.Algo+":"+fkind, "%s (%s): the %s tree at position %d is reported without an error: %v", pc.Algo, name, fkind, fpos, r)
				}
			}
		}
		// same results tree by tree
		for id := 0; id < len(pc.Recs); id++ {
			a, okA := base.Recs[id]
			b, okB := got.Recs[id]
			if okA != okB {
				// with the real reader an erroneous tree ends the stream; both runs must agree on what was delivered
				o.Fail("schedule-dependent:"+pc.Algo, "%s: tree %d reported by one run only (1 thread: %v, %d threads: %v)", what, id, okA, pc.Cpus, okB)
				continue
			}
			if !okA {
				continue
			}
			if a.T1 != b.T1 || a.C != b.C || a.T2 != b.T2 || a.Same != b.Same || a.Err != b.Err || !sameFloats(a.W1, b.W1) || !sameFloats(a.WC, b.WC) || !sameFloats(a.W2, b.W2) {
				o.Fail("schedule-dependent:"+pc.Algo, "%s: tree %d differs\n  1 thread : %v\n  %d threads: %v", what, id, a, pc.Cpus, b)
			}
		}
		if fkind == "" || pc.Feed == "chan" {
			if len(got.Recs) != len(pc.Recs) {
				o.Fail("record-lost:"+pc.Algo, "%s: %d records for %d input trees", what, len(got.Recs), len(pc.Recs))
			}
		}
	case "fbp", "tbe":
		if fkind != "" {
			for name, pr := range map[string]*PipeResult{"1 thread": base, fmt.Sprint(pc.Cpus, " threads"): got} {
				if pr.Err == nil {
					o.Fail("error-lost:"+pc.Algo+":"+fkind, "%s (%s): %s tree at position %d of %d, but the call returned no error", pc.Algo, name, fkind, fpos, len(pc.Recs))
				}
			}
			return
		}
		if base.Err != nil || got.Err != nil {
			o.Fail(pc.Algo+":unexpected-error", "%s: error on a fault-free stream: %v / %v", what, base.Err, got.Err)
			return
		}
		if base.RefOut != got.RefOut {
			o.Fail("schedule-dependent:"+pc.Algo, "%s: annotated reference trees differ\n  1 thread : %s\n  %d threads: %s", what, base.RefOut, pc.Cpus, got.RefOut)
		}
		if base.RawOut != got.RawOut {
			o.Fail("schedule-dependent:"+pc.Algo+":rawtree", "%s: raw distance trees differ\n  1 thread : %s\n  %d threads: %s", what, base.RawOut, pc.Cpus, got.RawOut)
		}
		if base.Progress != got.Progress || got.Progress != len(pc.Recs) {
			o.Fail("progress-count:"+pc.Algo, "%s: progress counter %d (1 thread) / %d (%d threads) for %d trees", what, base.Progress, got.Progress, pc.Cpus, len(pc.Recs))
		}
		if !sameLog(base.LogOut, got.LogOut) {
			o.Fail("schedule-dependent:"+pc.Algo+":log", "%s: moved-taxa logs differ beyond rounding\n--- 1 thread\n%s\n--- %d threads\n%s", what, base.LogOut, pc.Cpus, got.LogOut)
		}
	}
}

// sameLog compares two TBE logs field by field; numeric fields may differ by 1e-9 (sums accumulated in
// schedule order under a mutex; not part of "the results tree by tree").
func sameLog(a, b string) bool {
	fa, fb := strings.Fields(a), strings.Fields(b)
	if len(fa) != len(fb) {
		return false
	}
	for i := range fa {
		if fa[i] == fb[i] {
			continue
		}
		var x, y float64
		if _, err := fmt.Sscan(fa[i], &x); err != nil {
			return false
		}
		if _, err := fmt.Sscan(fb[i], &y); err != nil {
			return false
		}
		if math.Abs(x-y) > 1e-5 { // logs are printed with %f (6 decimals)
			return false
		}
	}
	return true
}

// ---- c11cli: the threaded commands, run in-process through cobra inside the scheduler ---------------------

type CliCase struct {
	Cmd     string    `json:"cmd"` // compare, compare-weighted, fbp, tbe, tbe-taxa
	Ref     string    `json:"ref"`
	Recs    []Rec     `json:"recs"`
	Threads int       `json:"threads"`
	Tips    bool      `json:"tips,omitempty"`
	Binary  bool      `json:"binary,omitempty"`
	RF      bool      `json:"rf,omitempty"`
	Sched   SchedCase `json:"sched"`
}

func init() {
	Register(&Engine{
		Name: "c11cli", Prop: "C11",
		Rule: "case = (command ∈ {compare trees, compare trees --weighted, compute support fbp, compute support tbe [--moved-taxa --per-branches]}, reference tree file, " +
			"file of 1..8 trees with an optional faulty tree (malformed / foreign, missing, extra taxon / duplicate tip) at a drawn position, -t ∈ {2,3,4,8}, schedule); " +
			"the command runs in-process through cmd.RootCmd inside the scheduler with -t 1 sequentially and with -t N under the drawn schedule. Oracles: both runs " +
			"terminate (no deadlock, panic, exit, step-budget overrun); with a faulty tree both return an error; without, outputs are equal (per-tree lines sorted). " +
			"Non-trivial: ≥ 2 workers received work and ≥ 1 context switch; distinct = distinct scheduler trace hashes",
		Gen: func(rt *rapid.T, tier string) any {
			pc := genPipe(rt, tier, pipeGenOpts{algos: []string{"compare"}, faults: true, faultKinds: []string{"foreign", "missing", "extra", "duptip", "malformed"},
				minTax: 4, maxTax: 12, maxTrees: 13, rootedRef: true, maxFaults: 5, zeroTrees: true})
			return &CliCase{Cmd: rapid.SampledFrom([]string{"compare", "compare-weighted", "fbp", "tbe", "tbe-taxa"}).Draw(rt, "cmd"), Ref: pc.Ref, Recs: pc.Recs,
				Threads: rapid.SampledFrom([]int{2, 3, 4, 8}).Draw(rt, "threads"), Tips: pc.Tips, Binary: rapid.IntRange(0, 3).Draw(rt, "binary") == 0,
				RF: rapid.IntRange(0, 3).Draw(rt, "rf") == 0, Sched: pc.Sched}
		},
		New:       func() any { return &CliCase{} },
		Exec:      execC11Cli,
		Real:      []string{"cmd compare trees / compute support fbp / tbe through cobra", "readTrees + reader goroutine", "tree.Compare / CompareWeighted", "support.FBP / TBE"},
		Simulated: []string{"choice of the runnable goroutine at every channel/WaitGroup/lock/shared-variable point", "position and kind of the faulty tree in the input file"},
		Expected:  []string{"fault-free", "faulty-tree", "two-or-more-workers-had-work"},
	})
}

func execC11Cli(t *testing.T, cc any, o *Outcome) {
	c := cc.(*CliCase)
	dir, err := os.MkdirTemp("", "verifc11cli")
	if err != nil {
		panic("harness: " + err.Error())
	}
	defer os.RemoveAll(dir)
	pc := &PipeCase{Recs: c.Recs}
	fpos, fkind := pc.hasFault()
	files := map[string]string{"ref.nw": c.Ref + "\n", "trees.nw": pc.streamText()}
	for n, s := range files {
		os.WriteFile(filepath.Join(dir, n), []byte(s), 0644)
	}
	tpl := &detTemplate{name: c.Cmd, threaded: true}
	switch c.Cmd {
	case "compare", "compare-weighted":
		tpl.args = []string{"compare", "trees", "-i", "@ref.nw", "-c", "@trees.nw", "-t", "@T", "--seed", "1"}
		tpl.stdout, tpl.perTree = true, true
		if c.Cmd == "compare-weighted" {
			tpl.args = append(tpl.args, "--weighted")
		}
		if c.Tips {
			tpl.args = append(tpl.args, "-l")
		}
		if c.Binary {
			tpl.args = append(tpl.args, "--binary")
		} else if c.RF && c.Cmd == "compare" {
			tpl.args = append(tpl.args, "--rf") // prints one number per tree, without its id: compared as a multiset of lines
		}
	case "fbp":
		tpl.args = []string{"compute", "support", "fbp", "-i", "@ref.nw", "-b", "@trees.nw", "-t", "@T", "-l", "@X1", "--silent", "--seed", "1", "-o", "@OUT"}
	case "tbe":
		tpl.args = []string{"compute", "support", "tbe", "-i", "@ref.nw", "-b", "@trees.nw", "-t", "@T", "-l", "@X1", "--silent", "--seed", "1", "-o", "@OUT"}
	case "tbe-taxa":
		tpl.args = []string{"compute", "support", "tbe", "-i", "@ref.nw", "-b", "@trees.nw", "-t", "@T", "-l", "@X1", "-r", "@X2", "--moved-taxa", "--per-branches", "--silent", "--seed", "1", "-o", "@OUT"}
	}
	run := func(threads int, sc SchedCase, tag string) (detResult, sched.Result) {
		dc := &DetCase{Seed: 1, Threads: threads}
		var res sched.Result
		r := runInProcessRes(t, dir, tpl, dc, Seam{MapSeed: 1, Epoch: 1000, Sched: sc}, tag, &res)
		return r, res
	}
	var base, got detResult
	var bres, gres sched.Result
	if c.Sched.Seed%2 == 0 {
		got, gres = run(c.Threads, c.Sched, "par")
		base, bres = run(1, seqSched(), "seq")
	} else {
		base, bres = run(1, seqSched(), "seq")
		got, gres = run(c.Threads, c.Sched, "par")
	}
	o.Steps = int64(bres.Steps + gres.Steps)
	o.Key = fmt.Sprintf("%s/%d/%016x", c.Cmd, c.Threads, gres.Hash)
	o.Nontrivial = gres.Switches > 0 && gres.Busy >= 2
	if gres.Busy >= 2 {
		o.Probe("two-or-more-workers-had-work")
	}
	ctx := fmt.Sprintf("gotree %s\n  ref   %s\n  trees %s", strings.Join(tpl.args, " "), c.Ref, recTexts(c.Recs))
	for name, r := range map[string]sched.Result{"-t 1": bres, fmt.Sprintf("-t %d", c.Threads): gres} {
		what := c.Cmd + " " + name
		for _, p := range r.Panics {
			o.Fail("cli:panic:"+normPanic(p.Value, p.Stack), "%s: panic in goroutine %s: %s\n%s\n%s", what, p.G, p.Value, trimStack(p.Stack), ctx)
		}
		if r.Exit != nil {
			o.Fail("cli:process-exit:"+c.Cmd, "%s: os.Exit(%d) from library code\n%s", what, r.Exit.Code, ctx)
		}
		if r.Deadlock && len(r.Panics) == 0 {
			o.Fail("cli:deadlock:"+c.Cmd+":"+blockedSites(r.Blocked), "%s: no goroutine can run and the command has not returned; blocked: %v\n%s", what, r.Blocked, ctx)
		}
		if r.Budget {
			o.Fail("cli:step-budget:"+c.Cmd, "%s: more than %d scheduler decisions\n%s", what, r.Steps, ctx)
		}
	}
	if len(o.Viols) > 0 {
		return
	}
	if fkind != "" {
		o.Fault(fkind)
		o.Probe("faulty-tree")
		for name, r := range map[string]detResult{"-t 1": base, fmt.Sprintf("-t %d", c.Threads): got} {
			if !strings.HasPrefix(r.status, "error") {
				o.Fail("cli:error-lost:"+c.Cmd+":"+fkind, "%s %s: tree %d of %d is %s but the command reports %q\n%s", c.Cmd, name, fpos, len(c.Recs), fkind, r.status, ctx)
			}
		}
		return
	}
	o.Probe("fault-free")
	// the support log prints the thread count; its moved-taxa numbers are sums accumulated in schedule order (printed with 6 decimals)
	cpus := regexp.MustCompile(`(?m)^CPUs( *): .*$`)
	for _, r := range []detResult{base, got} {
		if x, ok := r.outs["X1"]; ok {
			r.outs["X1"] = cpus.ReplaceAllString(x, "CPUs$1: <n>")
		}
	}
	if a, b := base.outs["X1"], got.outs["X1"]; a != b && sameLog(a, b) {
		got.outs["X1"] = a
	}
	if d := diffResults(base, got, false); d != "" {
		o.Fail("cli:schedule-dependent:"+c.Cmd, "-t %d gives another result than -t 1\n%s\n%s", c.Threads, ctx, d)
	}
}
