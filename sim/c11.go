package sim

// C11 — threaded computations are schedule-independent, race-free and terminate.

import (
	"fmt"
	"math"
	"strings"
	"testing"

	"pgregory.net/rapid"
)

func init() {
	Register(&Engine{
		Name: "c11", Prop: "C11",
		Rule: "case = (algorithm ∈ {Compare, CompareWeighted, FBP, TBE}, reference tree, 1..10 related trees on 4..10 taxa, optional fault record " +
			"(error record / foreign, missing, extra taxon / duplicate tip / malformed text) at a drawn position, feed (real reader goroutine or harness " +
			"producer), thread count ∈ {1,2,3,4,8,16}, schedule = strategy + choice vector + seed + enabled shared-variable sites); executed twice: " +
			"sequentially (1 thread, run-to-block) and under the drawn schedule. Non-trivial: ≥ 2 worker goroutines each received ≥ 1 record and ≥ 1 context " +
			"switch happened; distinct = distinct scheduler trace hashes (sequence of (goroutine, site, kind)) among those",
		Gen: func(rt *rapid.T, tier string) any {
			return genPipe(rt, tier, pipeGenOpts{algos: []string{"compare", "compareW", "fbp", "tbe"}, faults: true, minTax: 4, maxTax: 10, maxTrees: 10, rootedRef: true})
		},
		New:  func() any { return &PipeCase{} },
		Exec: execC11,
		Real: []string{"tree.Compare", "tree.CompareWeighted", "support.FBP", "support.TBE", "utils.ReadMultiTrees reader goroutine", "hashmap/EdgeIndex", "channels, WaitGroup, Mutex, bufio"},
		Simulated: []string{"choice of the runnable goroutine at every channel/WaitGroup/lock/shared-variable point", "input byte stream (chunking, buffer size)",
			"position and kind of the faulty record"},
	})
}

func sameFloats(a, b []float64) bool {
	if len(a) != len(b) {
		return false
	}
	for i := range a {
		if a[i] != b[i] && !(math.IsNaN(a[i]) && math.IsNaN(b[i])) {
			return false
		}
	}
	return true
}

func execC11(t *testing.T, c any, o *Outcome) {
	pc := c.(*PipeCase)
	fpos, fkind := pc.hasFault()
	// 1. sequential reference run
	base := runPipe(t, pc, 1, seqSched(), 2_000_000)
	okBase := liveness(o, base, pc.Algo+" (1 thread, sequential schedule)")
	budget := base.Sched.Steps*100 + 20000
	// 2. run under the drawn schedule
	got := runPipe(t, pc, pc.Cpus, pc.Sched, budget)
	okGot := liveness(o, got, fmt.Sprintf("%s (%d threads)", pc.Algo, pc.Cpus))
	o.Steps = int64(base.Sched.Steps + got.Sched.Steps)
	o.Key = fmt.Sprintf("%s/%d/%016x", pc.Algo, pc.Cpus, got.Sched.Hash)
	o.Nontrivial = got.Sched.Switches > 0 && got.Sched.Busy >= 2
	if fkind != "" {
		o.Fault(fkind)
	}
	if got.Sched.Busy >= 2 {
		o.Probe("two-or-more-workers-had-work")
	}
	if pc.Cpus > len(pc.Recs) {
		o.Probe("more-threads-than-trees")
	}
	if !okBase || !okGot {
		return
	}
	what := fmt.Sprintf("%s with %d threads vs 1 thread", pc.Algo, pc.Cpus)
	// error reaches the caller
	switch pc.Algo {
	case "compare", "compareW":
		for _, pr := range []*PipeResult{base, got} {
			if pr.Err != nil {
				o.Fail("compare:setup-error", "%s: unexpected error from the call itself: %v", what, pr.Err)
				return
			}
			if len(pr.Dup) > 0 {
				o.Fail("compare:duplicate-record", "%s: tree ids reported twice: %v", what, pr.Dup)
			}
		}
		if fkind != "" {
			for name, pr := range map[string]*PipeResult{"1 thread": base, fmt.Sprint(pc.Cpus, " threads"): got} {
				r, ok := pr.Recs[fpos]
				if !ok {
					o.Fail("error-lost:"+pc.Algo+":"+fkind, "%s (%s): no record for the %s tree at position %d", pc.Algo, name, fkind, fpos)
				} else if r.Err == "" {
					o.Fail("error-lost:"+pc.Algo+":"+fkind, "%s (%s): the %s tree at position %d is reported without an error: %v", pc.Algo, name, fkind, fpos, r)
				}
			}
		}
		// same results tree by tree
		for id := 0; id < len(pc.Recs); id++ {
			a, okA := base.Recs[id]
			b, okB := got.Recs[id]
			if okA != okB {
				// with the real reader an erroneous tree ends the stream; both runs must agree on what was delivered
				o.Fail("schedule-dependent:"+pc.Algo, "%s: tree %d reported by one run only (1 thread: %v, %d threads: %v)", what, id, okA, pc.Cpus, okB)
				continue
			}
			if !okA {
				continue
			}
			if a.T1 != b.T1 || a.C != b.C || a.T2 != b.T2 || a.Same != b.Same || a.Err != b.Err || !sameFloats(a.W1, b.W1) || !sameFloats(a.WC, b.WC) || !sameFloats(a.W2, b.W2) {
				o.Fail("schedule-dependent:"+pc.Algo, "%s: tree %d differs\n  1 thread : %v\n  %d threads: %v", what, id, a, pc.Cpus, b)
			}
		}
		if fkind == "" || pc.Feed == "chan" {
			if len(got.Recs) != len(pc.Recs) {
				o.Fail("record-lost:"+pc.Algo, "%s: %d records for %d input trees", what, len(got.Recs), len(pc.Recs))
			}
		}
	case "fbp", "tbe":
		if fkind != "" {
			for name, pr := range map[string]*PipeResult{"1 thread": base, fmt.Sprint(pc.Cpus, " threads"): got} {
				if pr.Err == nil {
					o.Fail("error-lost:"+pc.Algo+":"+fkind, "%s (%s): %s tree at position %d of %d, but the call returned no error", pc.Algo, name, fkind, fpos, len(pc.Recs))
				}
			}
			return
		}
		if base.Err != nil || got.Err != nil {
			o.Fail(pc.Algo+":unexpected-error", "%s: error on a fault-free stream: %v / %v", what, base.Err, got.Err)
			return
		}
		if base.RefOut != got.RefOut {
			o.Fail("schedule-dependent:"+pc.Algo, "%s: annotated reference trees differ\n  1 thread : %s\n  %d threads: %s", what, base.RefOut, pc.Cpus, got.RefOut)
		}
		if base.RawOut != got.RawOut {
			o.Fail("schedule-dependent:"+pc.Algo+":rawtree", "%s: raw distance trees differ\n  1 thread : %s\n  %d threads: %s", what, base.RawOut, pc.Cpus, got.RawOut)
		}
		if base.Progress != got.Progress || got.Progress != len(pc.Recs) {
			o.Fail("progress-count:"+pc.Algo, "%s: progress counter %d (1 thread) / %d (%d threads) for %d trees", what, base.Progress, got.Progress, pc.Cpus, len(pc.Recs))
		}
		if !sameLog(base.LogOut, got.LogOut) {
			o.Fail("schedule-dependent:"+pc.Algo+":log", "%s: moved-taxa logs differ beyond rounding\n--- 1 thread\n%s\n--- %d threads\n%s", what, base.LogOut, pc.Cpus, got.LogOut)
		}
	}
}

// sameLog compares two TBE logs field by field; numeric fields may differ by 1e-9 (sums accumulated in
// schedule order under a mutex; not part of "the results tree by tree").
func sameLog(a, b string) bool {
	fa, fb := strings.Fields(a), strings.Fields(b)
	if len(fa) != len(fb) {
		return false
	}
	for i := range fa {
		if fa[i] == fb[i] {
			continue
		}
		var x, y float64
		if _, err := fmt.Sscan(fa[i], &x); err != nil {
			return false
		}
		if _, err := fmt.Sscan(fb[i], &y); err != nil {
			return false
		}
		if math.Abs(x-y) > 1e-5 { // logs are printed with %f (6 decimals)
			return false
		}
	}
	return true
}
