package sim

// Worker-side framework shared by all engines: one seeded choice source (rapid), explicit replayable
// cases, violation classes, known-finding matching, per-batch evidence counters.

import (
	"encoding/json"
	"fmt"
	"hash/fnv"
	"io"
	"log"
	"os"
	"path/filepath"
	"regexp"
	"sort"
	"strings"
	"testing"
	"time"

	"pgregory.net/rapid"
)

// Viol is one oracle disagreement. Class is stable under shrinking and across seeds: oracle name plus a
// normalised location, never a seed or an input.
type Viol struct {
	Class  string `json:"class"`
	Detail string `json:"detail"`
}

// Outcome is what one executed case reports back.
type Outcome struct {
	Viols      []Viol
	Key        string         // identity of the case for the "distinct" count ("" = not counted)
	Nontrivial bool           // by the engine's stated rule
	Faults     map[string]int // fault kind -> times it actually fired
	Probes     map[string]int // rare conditions reached
	Steps      int64          // simulated steps (scheduler decisions, reads, history steps)
}

func (o *Outcome) Fail(class, format string, a ...any) {
	d := fmt.Sprintf(format, a...)
	if len(d) > 4000 {
		d = d[:4000] + "…"
	}
	o.Viols = append(o.Viols, Viol{class, d})
}
func (o *Outcome) Fault(kind string) {
	if o.Faults == nil {
		o.Faults = map[string]int{}
	}
	o.Faults[kind]++
}
func (o *Outcome) Probe(name string) {
	if o.Probes == nil {
		o.Probes = map[string]int{}
	}
	o.Probes[name]++
}

type Engine struct {
	Name string
	Prop string
	Rule string // how cases are generated and what makes one non-trivial / distinct
	// Gen draws one explicit case; everything the execution depends on is in the returned value.
	Gen func(rt *rapid.T, tier string) any
	// New returns an empty case to decode a replay file into.
	New func() any
	// Exec runs the case against the real code and evaluates the oracles.
	Exec func(t *testing.T, c any, o *Outcome)
	// Real / Simulated components, for the evidence file.
	Real, Simulated []string
	// Expected lists probes that should be reached; the evidence warns when one stays at zero.
	Expected []string
	// Enum returns the cases of this batch that are enumerated exhaustively before the seeded search starts
	// (case i of the enumeration belongs to batch i mod nbatch).
	Enum func(tier string, batch, nbatch int) []any
	// Isolate: a case may kill the worker process (runtime fatal error); the current case is written to
	// $VERIF_OUT.lastcase before it runs so that the driver can attribute the crash and replay it.
	Isolate bool
}

var Engines = map[string]*Engine{}

func Register(e *Engine) { Engines[e.Name] = e }

// ---- known findings -------------------------------------------------------------------------------------

type Finding struct {
	Status   string `json:"status"` // "known" or "fixed"
	Property string `json:"property"`
	Class    string `json:"class"` // exact violation class
	Match    string `json:"match"` // optional regexp on the detail text (predicate on the minimal case)
	What     string `json:"what"`
	Commit   string `json:"commit,omitempty"`
	re       *regexp.Regexp
}

func loadFindings(path string) []*Finding {
	var out []*Finding
	b, err := os.ReadFile(path)
	if err != nil {
		return nil
	}
	for _, ln := range strings.Split(string(b), "\n") {
		ln = strings.TrimSpace(ln)
		if ln == "" || strings.HasPrefix(ln, "#") || strings.HasPrefix(ln, "fixed:") {
			continue // "fixed:" lines document repaired defects and suppress nothing
		}
		f := &Finding{}
		if err := json.Unmarshal([]byte(ln), f); err != nil {
			fmt.Fprintln(os.Stdout, "BAD known_findings line:", err)
			os.Exit(2)
		}
		if f.Match != "" {
			f.re = regexp.MustCompile(f.Match)
		}
		out = append(out, f)
	}
	return out
}

func knownFinding(fs []*Finding, prop string, v Viol) *Finding {
	for _, f := range fs {
		if f.Status != "known" || f.Property != prop || f.Class != v.Class {
			continue
		}
		if f.re != nil && !f.re.MatchString(v.Detail) {
			continue
		}
		return f
	}
	return nil
}

// ---- per-batch aggregation ------------------------------------------------------------------------------

type violRec struct {
	Class  string `json:"class"`
	Detail string `json:"detail"`
	Replay string `json:"replay"`
	Shrunk bool   `json:"shrunk"`
}

type knownRec struct {
	Class  string `json:"class"`
	What   string `json:"what"`
	Count  int    `json:"count"`
	Detail string `json:"detail"`
	Replay string `json:"replay"`
}

type Summary struct {
	Engine     string               `json:"engine"`
	Prop       string               `json:"property"`
	Batch      int                  `json:"batch"`
	Seed       int64                `json:"seed"`
	Race       bool                 `json:"race"`
	Runs       int                  `json:"runs"`
	EnumRuns   int                  `json:"enum_runs"`
	ShrinkRuns int                  `json:"shrink_runs"`
	Nontrivial int                  `json:"nontrivial"`
	Keys       []string             `json:"keys"`
	Faults     map[string]int       `json:"faults"`
	Probes     map[string]int       `json:"probes"`
	Steps      int64                `json:"steps"`
	Known      map[string]*knownRec `json:"known"`
	Viols      []*violRec           `json:"violations"`
	Samples    []any                `json:"samples"`
	WallS      float64              `json:"wall_s"`
	Complete   bool                 `json:"complete"`
	Rule       string               `json:"rule"`
	Real       []string             `json:"real"`
	Simulated  []string             `json:"simulated"`
	Expected   []string             `json:"expected_probes"`
	keyset     map[uint64]bool
	evlog      *os.File
	start      time.Time
}

func newSummary(e *Engine, batch int, seed int64) *Summary {
	s := &Summary{Engine: e.Name, Prop: e.Prop, Batch: batch, Seed: seed, Faults: map[string]int{}, Probes: map[string]int{},
		Known: map[string]*knownRec{}, keyset: map[uint64]bool{}, start: time.Now(), Rule: e.Rule, Real: e.Real, Simulated: e.Simulated, Expected: e.Expected}
	if p := os.Getenv("VERIF_EVENTLOG"); p != "" {
		s.evlog, _ = os.Create(p)
	}
	return s
}

func (s *Summary) add(c any, o *Outcome) {
	s.Runs++
	if s.evlog != nil {
		// determinism self-test: one line per case, a pure function of the case and of what the simulation did
		cb, _ := json.Marshal(c)
		h := fnv.New64a()
		h.Write(cb)
		var cls []string
		for _, v := range o.Viols {
			cls = append(cls, v.Class)
		}
		fmt.Fprintf(s.evlog, "%d case=%016x steps=%d key=%s nontrivial=%v faults=%v probes=%v viols=%v\n", s.Runs, h.Sum64(), o.Steps, o.Key, o.Nontrivial, o.Faults, o.Probes, cls)
	}
	s.Steps += o.Steps
	for k, v := range o.Faults {
		s.Faults[k] += v
	}
	for k, v := range o.Probes {
		s.Probes[k] += v
	}
	if o.Nontrivial {
		s.Nontrivial++
		if o.Key != "" {
			h := fnv.New64a()
			h.Write([]byte(o.Key))
			s.keyset[h.Sum64()] = true
		}
		if len(s.Samples) < 2 {
			s.Samples = append(s.Samples, c)
		}
	}
}

func (s *Summary) write(path string) {
	s.WallS = time.Since(s.start).Seconds()
	s.Keys = []string{}
	for k := range s.keyset {
		s.Keys = append(s.Keys, fmt.Sprintf("%016x", k))
	}
	sort.Strings(s.Keys)
	if path == "" {
		return
	}
	b, _ := json.Marshal(s)
	os.WriteFile(path, b, 0644)
}

type replayFile struct {
	Engine   string `json:"engine"`
	Property string `json:"property"`
	Class    string `json:"class"`
	Detail   string `json:"detail"`
	Seed     int64  `json:"seed"`
	Batch    int    `json:"batch"`
	Race     bool   `json:"race,omitempty"`
	// Repeat > 1: the violation needs process-wide state that the case itself builds up; the replay executes the case
	// up to Repeat times in the one fresh process and reports the first repetition that fails.
	Repeat int             `json:"repeat,omitempty"`
	Case   json.RawMessage `json:"case"`
}

var slugRe = regexp.MustCompile(`[^A-Za-z0-9_.-]+`)

func slug(s string) string {
	s = slugRe.ReplaceAllString(s, "_")
	if len(s) > 80 {
		h := fnv.New32a()
		h.Write([]byte(s))
		s = fmt.Sprintf("%s_%08x", s[:70], h.Sum32())
	}
	return s
}

func writeReplay(dir string, e *Engine, batch int, seed int64, race bool, v Viol, c any) string {
	if dir == "" {
		return ""
	}
	os.MkdirAll(dir, 0755)
	cb, _ := json.Marshal(c)
	b, _ := json.MarshalIndent(replayFile{Engine: e.Name, Property: e.Prop, Class: v.Class, Detail: v.Detail, Seed: seed, Batch: batch, Race: race, Case: cb}, "", " ")
	p := filepath.Join(dir, fmt.Sprintf("%s.b%d.json", slug(v.Class), batch))
	os.WriteFile(p, b, 0644)
	return p
}

var realStderr = os.Stderr

func silence() {
	devnull, _ := os.OpenFile("/dev/null", os.O_WRONLY, 0)
	os.Stderr = devnull
	log.SetOutput(io.Discard)
}

func envInt(name string, def int64) int64 {
	var v int64
	if _, err := fmt.Sscan(os.Getenv(name), &v); err != nil {
		return def
	}
	return v
}

// RunWorker is the body of the worker test: replay one case, or explore a batch of cases with rapid.
func RunWorker(t *testing.T, race bool) {
	name := os.Getenv("VERIF_ENGINE")
	if name == "" {
		t.Skip("VERIF_ENGINE not set")
	}
	e := Engines[name]
	if e == nil {
		fmt.Println("unknown engine", name)
		os.Exit(2)
	}
	silence()
	tier := os.Getenv("VERIF_TIER")
	if tier == "" {
		tier = "quick"
	}
	findings := loadFindings(os.Getenv("VERIF_KNOWN"))
	seed := envInt("VERIF_SEED", 1)
	batch := int(envInt("VERIF_BATCH", 0))
	runs := int(envInt("VERIF_RUNS", 100))
	replayDir := os.Getenv("VERIF_REPLAYDIR")

	if rp := os.Getenv("VERIF_REPLAY"); rp != "" {
		b, err := os.ReadFile(rp)
		if err != nil {
			fmt.Println("cannot read replay file:", err)
			os.Exit(2)
		}
		var rf replayFile
		if err := json.Unmarshal(b, &rf); err != nil {
			fmt.Println("bad replay file:", err)
			os.Exit(2)
		}
		var c any
		o := &Outcome{}
		for rep := 0; rep < rf.Repeat || rep == 0; rep++ {
			c = e.New()
			if err := json.Unmarshal(rf.Case, c); err != nil {
				fmt.Println("bad case in replay file:", err)
				os.Exit(2)
			}
			o = &Outcome{}
			if race {
				ok := t.Run("replay", func(t *testing.T) { e.Exec(t, c, o) })
				if !ok {
					fmt.Printf("REPLAY-VIOLATION class=%s\n", "race")
				}
			} else {
				e.Exec(t, c, o)
			}
			if len(o.Viols) > 0 {
				if rf.Repeat > 1 {
					fmt.Printf("REPLAY-REPETITION %d of %d\n", rep+1, rf.Repeat)
				}
				break
			}
		}
		for _, v := range o.Viols {
			fmt.Printf("REPLAY-VIOLATION class=%s\n  %s\n", v.Class, strings.ReplaceAll(v.Detail, "\n", "\n  "))
		}
		if len(o.Viols) == 0 {
			fmt.Println("REPLAY-OK")
		}
		return
	}

	sum := newSummary(e, batch, seed)
	sum.Race = race
	defer sum.write(os.Getenv("VERIF_OUT"))

	if race {
		gen := rapid.Custom(func(rt *rapid.T) any { return e.Gen(rt, tier) })
		for i := 0; i < runs; i++ {
			c := gen.Example(int(seed*1000003 + int64(batch)*7919 + int64(i)))
			o := &Outcome{}
			fmt.Fprintf(realStderr, "VERIF-RUN %d\n", i)
			ok := t.Run(fmt.Sprintf("r%d", i), func(t *testing.T) { e.Exec(t, c, o) })
			sum.add(c, o)
			if !ok {
				v := Viol{Class: "race", Detail: fmt.Sprintf("data race reported during run %d (see stderr)", i)}
				p := writeReplay(replayDir, e, batch*100000+i, seed, true, v, c)
				sum.Viols = append(sum.Viols, &violRec{Class: fmt.Sprintf("race@run%d", i), Detail: v.Detail, Replay: p})
			}
		}
		sum.Complete = true
		return
	}

	lastcase := ""
	if e.Isolate && os.Getenv("VERIF_OUT") != "" {
		lastcase = os.Getenv("VERIF_OUT") + ".lastcase"
	}
	mark := func(c any) {
		if lastcase != "" {
			cb, _ := json.Marshal(c)
			b, _ := json.Marshal(replayFile{Engine: e.Name, Property: e.Prop, Class: "process-crash", Seed: seed, Batch: batch, Case: cb})
			os.WriteFile(lastcase, b, 0644)
		}
	}
	target := ""
	var targetRec *violRec
	seen := map[string]bool{}
	// process evaluates the violations of one executed case; it returns the class to fail the rapid property with ("" = none)
	process := func(c any, o *Outcome) string {
		fail := ""
		for _, v := range o.Viols {
			if f := knownFinding(findings, e.Prop, v); f != nil {
				k := sum.Known[f.Class+"|"+f.Match]
				if k == nil {
					k = &knownRec{Class: f.Class, What: f.What, Detail: v.Detail}
					k.Replay = writeReplay(replayDir, e, batch, seed, false, Viol{"known." + v.Class, v.Detail}, c)
					sum.Known[f.Class+"|"+f.Match] = k
				}
				if target == "" {
					k.Count++
				}
				continue
			}
			if target == "" {
				target = v.Class
			}
			if v.Class != target {
				if !seen[v.Class] {
					seen[v.Class] = true
					p := writeReplay(replayDir, e, batch, seed, false, v, c)
					sum.Viols = append(sum.Viols, &violRec{Class: v.Class, Detail: v.Detail, Replay: p})
				}
				continue
			}
			p := writeReplay(replayDir, e, batch, seed, false, v, c)
			if targetRec == nil {
				targetRec = &violRec{Class: v.Class}
				sum.Viols = append(sum.Viols, targetRec)
			} else {
				targetRec.Shrunk = true
			}
			targetRec.Detail, targetRec.Replay = v.Detail, p
			fail = v.Class
		}
		return fail
	}
	if e.Enum != nil {
		nbatch := int(envInt("VERIF_NBATCH", 1))
		for _, c := range e.Enum(tier, batch, nbatch) {
			o := &Outcome{}
			mark(c)
			e.Exec(t, c, o)
			sum.add(c, o)
			sum.EnumRuns++
			// enumerated cases are not shrunk: every class keeps the first (smallest, by enumeration order) failing case
			for _, v := range o.Viols {
				if f := knownFinding(findings, e.Prop, v); f != nil {
					k := sum.Known[f.Class+"|"+f.Match]
					if k == nil {
						k = &knownRec{Class: f.Class, What: f.What, Detail: v.Detail}
						k.Replay = writeReplay(replayDir, e, batch, seed, false, Viol{"known." + v.Class, v.Detail}, c)
						sum.Known[f.Class+"|"+f.Match] = k
					}
					k.Count++
					continue
				}
				if !seen[v.Class] {
					seen[v.Class] = true
					p := writeReplay(replayDir, e, batch, seed, false, v, c)
					sum.Viols = append(sum.Viols, &violRec{Class: v.Class, Detail: v.Detail, Replay: p})
				}
			}
		}
	}
	if runs > 0 {
		rapid.Check(t, func(rt *rapid.T) {
			c := e.Gen(rt, tier)
			o := &Outcome{}
			mark(c)
			e.Exec(t, c, o)
			if target == "" {
				sum.add(c, o)
			} else {
				sum.ShrinkRuns++
			}
			if cls := process(c, o); cls != "" {
				rt.Fatalf("violation %s", cls) // constant text per class: rapid only accepts a shrink step when the message is unchanged
			}
		})
	}
	if lastcase != "" {
		os.Remove(lastcase)
	}
	sum.Complete = true
}
