package sim

// schedsim pipeline harness shared by C08, C09, C10, C11: a stream of tree records (through the real
// reader goroutine, or from a harness producer that can place arbitrary records) feeding the real
// worker pools, everything inside one bubble under the deterministic scheduler.

import (
	"bufio"
	"errors"
	"fmt"
	"io"
	"os"
	"runtime/debug"
	"sort"
	"strconv"
	"strings"
	"testing"

	"github.com/evolbioinfo/gotree/io/newick"
	"github.com/evolbioinfo/gotree/io/utils"
	"github.com/evolbioinfo/gotree/support"
	"github.com/evolbioinfo/gotree/tree"
	"pgregory.net/rapid"
	"sim/sched"
	"verifhook"
)

// Rec is one record of the input stream.
type Rec struct {
	Text  string `json:"text"`            // Newick text ("" for a pure error record)
	Fault string `json:"fault,omitempty"` // "", errrec, foreign, missing, extra, duptip, malformed
}

type PipeCase struct {
	Algo      string  `json:"algo"` // compare, compareW, fbp, tbe, consensus
	Ref       string  `json:"ref,omitempty"`
	Recs      []Rec   `json:"recs"`
	Feed      string  `json:"feed"`            // "reader": real ReadMultiTrees over a SimReader; "chan": harness producer
	Nexus     bool    `json:"nexus,omitempty"` // reader feed: the trees come as a Nexus document
	Cpus      int     `json:"cpus"`
	Tips      bool    `json:"tips,omitempty"`
	Identical bool    `json:"identical,omitempty"`
	AvgTaxa   bool    `json:"avgtaxa,omitempty"`
	PerBranch bool    `json:"perbranch,omitempty"`
	RawTree   bool    `json:"rawtree,omitempty"`
	Cutoff    float64 `json:"cutoff,omitempty"`
	BadCutoff bool    `json:"badcutoff,omitempty"`
	NaNCutoff bool    `json:"nancutoff,omitempty"`
	SwapIdx   int     `json:"swapidx,omitempty"`
	// CloneSwaps: instead of Recs, the compared trees are clones of the indexed reference with two tip names exchanged
	CloneSwaps [][2]int `json:"cloneswaps,omitempty"`
	// ShareObjects (producer feed): records with the same text are the same *tree.Tree object
	ShareObjects bool `json:"shareobjects,omitempty"`
	// StaleIndex: reference and (producer feed) compared trees carry indexes computed before their tips were renamed
	StaleIndex bool `json:"staleindex,omitempty"`
	// ZeroIds (producer feed, fbp / tbe): every record carries id 0 (two files forwarded on one channel, ids never set)
	ZeroIds bool `json:"zeroids,omitempty"`
	// PriorRun (fbp, tbe): the other support has been computed on the same reference object first (a history of two calls)
	PriorRun bool      `json:"priorrun,omitempty"`
	Recs2    []Rec     `json:"recs2,omitempty"` // the same collection in another order and presentation (metamorphic second run)
	BufSz    int       `json:"bufsz"`
	Chunk    int       `json:"chunk"`
	Sched    SchedCase `json:"sched"`
}

type CmpRec struct {
	T1, C, T2  int
	Same       bool
	Err        string
	W1, WC, W2 []float64
}

func (r CmpRec) String() string {
	return fmt.Sprintf("ref-only=%d common=%d comp-only=%d same=%v err=%q w=%v/%v/%v", r.T1, r.C, r.T2, r.Same, r.Err, r.W1, r.WC, r.W2)
}

type PipeResult struct {
	Sched      sched.Result
	Recs       map[int]CmpRec
	Dup        []int // tree ids reported more than once
	RefOut     string
	RawOut     string
	LogOut     string
	Progress   int
	TipSup     int // tip branches carrying a support after FBP / TBE
	CloneTexts []string
	Err        error
	Returned   bool
}

func tipSupports(t *tree.Tree) int {
	n := 0
	for _, e := range t.TipEdges() {
		if e.Support() != tree.NIL_SUPPORT {
			n++
		}
	}
	return n
}

// staleIndexed: the tree has been indexed under other tip names (ranks reversed), then its tips were given their names and only
// the tip index was refreshed — what Rename leaves behind. Every function that starts by re-indexing its input heals this.
func staleIndexed(t *tree.Tree) *tree.Tree {
	tips := t.Tips()
	names := make([]string, len(tips))
	for i, n := range tips {
		names[i] = n.Name()
	}
	sorted := append([]string(nil), names...)
	sort.Strings(sorted)
	rank := map[string]int{}
	for i, s := range sorted {
		rank[s] = i
	}
	if len(rank) != len(names) {
		return t // duplicate names: cannot be indexed at all
	}
	for i, n := range tips {
		n.SetName(fmt.Sprintf("zz%06d", len(names)-1-rank[names[i]]))
	}
	if err := t.ReinitIndexes(); err != nil {
		panic("harness: " + err.Error())
	}
	for i, n := range tips {
		n.SetName(names[i])
	}
	if err := t.UpdateTipIndex(); err != nil {
		panic("harness: " + err.Error())
	}
	return t
}

// supporter: the progress tracker given to FBP / TBE; for some cases one that another computation has already used.
func (pc *PipeCase) supporter() (*support.Supporter, int) {
	sup := support.NewSupporter()
	if pc.PriorRun && pc.BufSz == 16 {
		for i := 0; i < 3; i++ {
			sup.IncrementProgress()
		}
	}
	return sup, sup.Progress()
}

func mustParse(s string) *tree.Tree {
	t, err := newick.NewParser(strings.NewReader(s)).Parse()
	if err != nil {
		panic(fmt.Sprintf("harness: generated tree does not parse: %v: %s", err, s))
	}
	return t
}

func (pc *PipeCase) streamText() string {
	var b strings.Builder
	for _, r := range pc.Recs {
		b.WriteString(r.Text)
		b.WriteString("\n")
	}
	return b.String()
}

func (pc *PipeCase) hasFault() (int, string) {
	for i, r := range pc.Recs {
		if r.Fault != "" {
			return i, r.Fault
		}
	}
	return -1, ""
}

var errInjected = errors.New("injected error record")

// feed returns the input channel of the SUT. Must be called inside the bubble.
// cloneFeed: the compared trees are clones of the already indexed reference, each with the names of two tips exchanged
// (a history: index, clone, edit the clone, compare). The text of each clone is noted for the model.
func (pc *PipeCase) cloneFeed(ref *tree.Tree, pr *PipeResult) <-chan tree.Trees {
	if err := ref.ReinitIndexes(); err != nil {
		panic("harness: " + err.Error())
	}
	var clones []*tree.Tree
	for _, sw := range pc.CloneSwaps {
		c := ref.Clone()
		tips := c.Tips()
		a, b := tips[sw[0]%len(tips)], tips[sw[1]%len(tips)]
		na, nb := a.Name(), b.Name()
		a.SetName(nb)
		b.SetName(na)
		clones = append(clones, c)
		pr.CloneTexts = append(pr.CloneTexts, c.Newick())
	}
	ch := make(chan tree.Trees)
	id := verifhook.Spawn("harness.producer")
	go func() {
		verifhook.GoStart(id)
		defer verifhook.GoEnd()
		for i, c := range clones {
			verifhook.Yield("harness.producer", "send")
			ch <- tree.Trees{Tree: c, Id: i}
		}
		verifhook.Yield("harness.producer", "close")
		close(ch)
	}()
	return ch
}

func (pc *PipeCase) feed() <-chan tree.Trees {
	if pc.Feed == "reader" {
		text := pc.streamText()
		format := utils.FORMAT_NEWICK
		if pc.Nexus {
			var b strings.Builder
			b.WriteString("#NEXUS\nBEGIN TREES;\n")
			for i, r := range pc.Recs {
				fmt.Fprintf(&b, "TREE t%d = %s\n", i, r.Text)
			}
			b.WriteString("END;\n")
			text, format = b.String(), utils.FORMAT_NEXUS
		}
		sr := &SimReader{Data: []byte(text), Limit: len(text), Chunk: pc.Chunk, EndErr: io.EOF}
		return utils.ReadMultiTrees(bufio.NewReaderSize(sr, pc.BufSz), format)
	}
	ch := make(chan tree.Trees)
	id := verifhook.Spawn("harness.producer")
	go func() {
		verifhook.GoStart(id)
		defer verifhook.GoEnd()
		shared := map[string]*tree.Tree{}
		for i, r := range pc.Recs {
			var rec tree.Trees
			if r.Fault == "errrec" {
				rec = tree.Trees{Tree: nil, Id: i, Err: errInjected}
			} else if t, ok := shared[r.Text]; ok && pc.ShareObjects {
				// a collection drawn with replacement: the same tree object more than once
				rec = tree.Trees{Tree: t, Id: i}
			} else {
				t, err := newick.NewParser(strings.NewReader(r.Text)).Parse()
				if err == nil && pc.StaleIndex {
					t = staleIndexed(t)
				}
				rec = tree.Trees{Tree: t, Id: i, Err: err}
				if err == nil {
					shared[r.Text] = t
				}
			}
			if pc.ZeroIds {
				rec.Id = 0
			}
			verifhook.Yield("harness.producer", "send")
			ch <- rec
			verifhook.Yield("harness.producer", "sent")
		}
		verifhook.Yield("harness.producer", "close")
		close(ch)
	}()
	return ch
}

// runPipe executes the case with the given thread count and schedule.
func runPipe(t *testing.T, pc *PipeCase, cpus int, sc SchedCase, maxSteps int) *PipeResult {
	return runPipeT(t, pc, cpus, sc, maxSteps, nominalStmts)
}

// runPipeT: total = statement count of a reference run, to which the pre-emption points of sc are scaled.
func runPipeT(t *testing.T, pc *PipeCase, cpus int, sc SchedCase, maxSteps, total int) *PipeResult {
	pr := &PipeResult{Recs: map[int]CmpRec{}}
	cfg := sc.ConfigT(maxSteps, total)
	pr.Sched = sched.Run(t, cfg, func() {
		var ref *tree.Tree
		if pc.Algo != "consensus" {
			ref = mustParse(pc.Ref)
			if pc.StaleIndex {
				ref = staleIndexed(ref)
			}
		}
		var in <-chan tree.Trees
		if len(pc.CloneSwaps) > 0 {
			in = pc.cloneFeed(ref, pr)
		} else {
			in = pc.feed()
		}
		switch pc.Algo {
		case "compare":
			st, err := tree.Compare(ref, in, pc.Tips, pc.Identical, cpus)
			if err != nil {
				pr.Err = err
				break
			}
			for s := range st {
				verifhook.Yield("harness.collect", "recv")
				if _, dup := pr.Recs[s.Id]; dup {
					pr.Dup = append(pr.Dup, s.Id)
				}
				r := CmpRec{T1: s.Tree1, C: s.Common, T2: s.Tree2, Same: s.Sametree}
				if s.Err != nil {
					r.Err = "error"
				}
				pr.Recs[s.Id] = r
			}
		case "compareW":
			st, err := tree.CompareWeighted(ref, in, pc.Tips, pc.Identical, cpus)
			if err != nil {
				pr.Err = err
				break
			}
			for s := range st {
				verifhook.Yield("harness.collect", "recv")
				if _, dup := pr.Recs[s.Id]; dup {
					pr.Dup = append(pr.Dup, s.Id)
				}
				r := CmpRec{T1: len(s.Tree1), C: len(s.Common), T2: len(s.Tree2), Same: s.Sametree,
					W1: append([]float64{}, s.Tree1...), WC: append([]float64{}, s.Common...), W2: append([]float64{}, s.Tree2...)}
				if s.Err != nil {
					r.Err = "error"
				}
				pr.Recs[s.Id] = r
			}
		case "fbp":
			if pc.PriorRun {
				if err := ref.ReinitIndexes(); err != nil {
					panic("harness: " + err.Error())
				}
				prior := *pc
				prior.Feed = "chan"
				if _, err := support.TBE(ref, prior.feed(), 1, false, false, false, 0.3, nil, support.NewSupporter()); err != nil {
					panic("harness: prior TBE run fails: " + err.Error())
				}
			}
			sup, before := pc.supporter()
			pr.Err = support.FBP(ref, in, cpus, sup)
			pr.Progress = sup.Progress() - before
			pr.RefOut = ref.Newick()
			pr.TipSup = tipSupports(ref)
		case "tbe":
			if err := ref.ReinitIndexes(); err != nil {
				pr.Err = err
				break
			}
			if pc.PriorRun {
				prior := *pc
				prior.Feed = "chan"
				if err := support.FBP(ref, prior.feed(), 1, support.NewSupporter()); err != nil {
					panic("harness: prior FBP run fails: " + err.Error())
				}
			}
			var logf *os.File
			if pc.AvgTaxa || pc.PerBranch {
				logf, _ = os.CreateTemp("", "veriftbe")
				if logf != nil {
					defer os.Remove(logf.Name())
					defer logf.Close()
				}
			}
			sup, before := pc.supporter()
			raw, err := support.TBE(ref, in, cpus, pc.RawTree, pc.AvgTaxa, pc.PerBranch, 0.3, logf, sup)
			pr.Err = err
			pr.Progress = sup.Progress() - before
			pr.RefOut = ref.Newick()
			pr.TipSup = tipSupports(ref)
			if raw != nil {
				pr.RawOut = raw.Newick()
			}
			if logf != nil {
				b, _ := os.ReadFile(logf.Name())
				pr.LogOut = string(b)
			}
		case "consensus":
			cons, err := tree.Consensus(in, pc.Cutoff)
			pr.Err = err
			if cons != nil && err == nil {
				pr.RefOut = cons.Newick()
			}
		default:
			panic("harness: unknown algo " + pc.Algo)
		}
		pr.Returned = true
	})
	return pr
}

// liveness evaluates the termination oracle common to all pipeline engines.
func liveness(o *Outcome, pr *PipeResult, what string) bool {
	r := pr.Sched
	ok := true
	for _, p := range r.Panics {
		o.Fail("panic:"+normPanic(p.Value, p.Stack), "%s: panic in goroutine %s at decision %d: %s\n%s", what, p.G, p.Step, p.Value, trimStack(p.Stack))
		ok = false
	}
	if r.Exit != nil {
		o.Fail("process-exit", "%s: the library called os.Exit(%d)", what, r.Exit.Code)
		ok = false
	}
	if r.Deadlock {
		o.Fail("deadlock:"+blockedSites(r.Blocked), "%s: no goroutine can run and the call has not returned after %d decisions; blocked: %v", what, r.Steps, r.Blocked)
		ok = false
	}
	if r.Budget {
		o.Fail("step-budget", "%s: more than %d scheduler decisions without finishing", what, r.Steps)
		ok = false
	}
	if r.TickBudget {
		o.Fail("loop-budget", "%s: logical loop budget exceeded", what)
		ok = false
	}
	if ok && !pr.Returned {
		o.Fail("not-returned", "%s: simulation ended without the call returning", what)
		ok = false
	}
	return ok
}

// blockedSites normalises the list of blocked goroutines to their sites without line numbers.
func blockedSites(bl []string) string {
	set := map[string]bool{}
	for _, b := range bl {
		if i := strings.Index(b, "@"); i >= 0 {
			b = b[i+1:]
		}
		if i := strings.Index(b, ":"); i >= 0 {
			j := strings.Index(b[i:], "/")
			if j >= 0 {
				b = b[:i] + b[i+j:]
			} else {
				b = b[:i]
			}
		}
		if strings.HasPrefix(b, "harness") || strings.HasPrefix(b, "gostart") {
			continue
		}
		if strings.HasSuffix(b, "/pstmt") || strings.HasSuffix(b, "/stmt") || strings.HasSuffix(b, "/shared") || strings.HasSuffix(b, "/sharedw") {
			continue // the last pre-emption point of a goroutine says where it was, not what it is blocked on
		}
		set[b] = true
	}
	return strings.Join(sortedKeys(set), ",")
}

// normPanic gives a stable identity to a panic: message class plus the first gotree function on the stack.
func normPanic(val, stack string) string {
	msg := val
	if i := strings.Index(msg, "["); i > 0 && strings.Contains(msg, "index out of range") {
		msg = "index out of range"
	}
	if strings.Contains(msg, "nil pointer") {
		msg = "nil pointer dereference"
	}
	if strings.Contains(msg, "slice bounds out of range") {
		msg = "slice bounds out of range"
	}
	if len(msg) > 60 {
		msg = msg[:60]
	}
	fn := ""
	for _, ln := range strings.Split(stack, "\n") {
		if strings.HasPrefix(ln, "github.com/evolbioinfo/gotree/") {
			fn = strings.TrimPrefix(ln, "github.com/evolbioinfo/gotree/")
			if i := strings.LastIndex(fn, "("); i > 0 {
				fn = fn[:i]
			}
			if strings.Contains(fn, ".func") {
				fn = fn[:strings.Index(fn, ".func")]
			}
			break
		}
	}
	return msg + "@" + fn
}

func trimStack(s string) string {
	var keep []string
	for _, ln := range strings.Split(s, "\n") {
		if strings.Contains(ln, "gotree") {
			keep = append(keep, strings.TrimSpace(ln))
		}
		if len(keep) >= 12 {
			break
		}
	}
	return strings.Join(keep, "\n")
}

// guard runs f and converts a panic of the calling goroutine into a violation (used outside the scheduler).
func guard(o *Outcome, what string, f func()) (ok bool) {
	defer func() {
		if p := recover(); p != nil {
			ok = false
			switch v := p.(type) {
			case hangSentinel:
				o.Fail("hang:"+what, "%s: reader keeps reading after end of input (endless loop)", what)
			case tickSentinel:
				o.Fail("hang:"+what, "%s: logical loop budget exceeded (endless loop)", what)
			case lockSentinel:
				o.Fail("deadlock:lock-never-released", "%s: a lock is taken at %s while it is still held, and no other goroutine exists that could release it (left locked by an earlier call in this process)", what, v.site)
			case sched.ExitSentinel:
				o.Fail("process-exit:"+what, "%s: the library called os.Exit(%d)", what, v.Code)
			case needsScheduler:
				panic(p) // not a verdict: the caller repeats the case inside the scheduler
			default:
				st := string(debug.Stack())
				if strings.HasPrefix(fmt.Sprint(p), "harness:") {
					panic(p)
				}
				o.Fail("panic:"+normPanic(fmt.Sprint(p), st), "%s: panic: %v\n%s", what, p, trimStack(st))
			}
		}
	}()
	f()
	return true
}

// ---- generation of pipeline workloads -------------------------------------------------------------------

type pipeGenOpts struct {
	algos      []string
	faults     bool
	faultKinds []string // default: all
	refine     bool     // also make the reference a pure contraction of the base tree (compared trees are refinements)
	twoBases   bool     // collections built from two base trees so that split frequencies sit on k/n exactly
	maxFaults  int      // more than one faulty record in a stream (default 1)
	zeroTrees  bool     // the stream may be empty
	nexusFeed  bool     // the reader feed may be a Nexus document
	minTax     int
	maxTax     int
	maxTrees   int
	rootedRef  bool
	rootedRecs bool
}

func genPipe(rt *rapid.T, tier string, op pipeGenOpts) *PipeCase {
	if op.maxFaults == 0 {
		op.maxFaults = 1
	}
	r := rapidRnd{rt}
	pc := &PipeCase{}
	pc.Algo = rapid.SampledFrom(op.algos).Draw(rt, "algo")
	if pc.Algo == "tbe" {
		pc.AvgTaxa = rapid.IntRange(0, 2).Draw(rt, "avgtaxa") == 0
		pc.PerBranch = rapid.IntRange(0, 2).Draw(rt, "perbranch") == 0
		pc.RawTree = rapid.IntRange(0, 2).Draw(rt, "rawtree") == 0
		if (pc.AvgTaxa || pc.PerBranch) && op.maxTax >= 12 && op.minTax < 10 {
			op.minTax = 10 // the moved-taxa statistics only look at branches of depth >= 5
		}
	}
	ntax := drawTaxa(rt, op.minTax, op.maxTax)
	tx := drawTaxaNames(rt, ntax)
	maxdeg := rapid.IntRange(2, 4).Draw(rt, "maxdeg")
	base := RandomTree(tx, r, maxdeg, true)
	ntrees := rapid.IntRange(1, op.maxTrees).Draw(rt, "ntrees")
	if op.zeroTrees && rapid.IntRange(0, 11).Draw(rt, "empty") == 0 {
		ntrees = 0
	}
	var models []*RNode
	var base2 *RNode
	for i := 0; i < ntrees; i++ {
		var m *RNode
		switch rapid.IntRange(0, 5).Draw(rt, "rel") {
		case 0:
			m = represent(base, r) // same tree, other presentation
		case 1:
			m = related(base, r, 0, 2) // contraction
		case 2:
			m = represent(RandomTree(tx, r, maxdeg, true), r) // unrelated
		case 4:
			// the base tree with one or two rogue taxa
			mm := base.Clone(nil)
			for k := 1 + r.Intn(2); k > 0; k-- {
				RogueMove(mm, r)
			}
			Unroot(mm)
			m = represent(mm, r)
		case 3:
			if op.twoBases {
				if base2 == nil {
					base2 = related(base, r, 2, 0)
				}
				m = represent(base2, r)
				break
			}
			fallthrough
		default:
			m = related(base, r, 2, 1)
		}
		if op.rootedRecs && rapid.IntRange(0, 3).Draw(rt, "rootrec") == 0 {
			all := m.all()
			m = rootAtRandom(m, all, r)
		}
		models = append(models, m)
		pc.Recs = append(pc.Recs, Rec{Text: m.Newick()})
	}
	refm := base.Clone(nil)
	switch rapid.IntRange(0, 4).Draw(rt, "refkind") {
	case 0:
		if len(models) > 0 {
			refm = models[r.Intn(len(models))].Clone(nil)
		}
	case 1:
		refm = related(base, r, 1, 1)
	case 2:
		if op.refine {
			refm = related(base, r, 0, 2)
		}
	case 3:
		// a reference much less resolved than the other trees: every inner branch contracted with probability 1/2, or all but one or two
		refm = base.Clone(nil)
		in := innerNodes(refm)
		keep := -1
		if r.Intn(2) == 0 && len(in) > 2 {
			keep = 1 + r.Intn(2)
		}
		for len(in) > 0 {
			i := r.Intn(len(in))
			if keep >= 0 && len(in) <= keep {
				break
			}
			if keep >= 0 || r.Intn(2) == 0 {
				Contract(in[i])
			}
			in = append(in[:i], in[i+1:]...)
		}
		Unroot(refm)
	}
	if op.rootedRef && rapid.IntRange(0, 2).Draw(rt, "rootref") == 0 {
		all := refm.all()
		refm = rootAtRandom(refm, all, r)
		if a, b := refm.Children[0], refm.Children[1]; len(refm.Children) == 2 && a.HasLen && b.HasLen && rapid.Bool().Draw(rt, "unevenroot") {
			// the root is not in the middle of its branch: the two root branches carry the same split with different lengths
			total := a.Len + b.Len
			a.Len = total / 4
			b.Len = total - a.Len
		}
	}
	if rapid.IntRange(0, 3).Draw(rt, "refsupports") == 0 {
		// a reference that already carries supports (a previous run, aLRT values): percentages or fractions
		for _, x := range innerNodes(refm) {
			if rapid.Bool().Draw(rt, "pct") {
				x.Label = strconv.Itoa(rapid.IntRange(0, 100).Draw(rt, "oldsup"))
			} else {
				x.Label = strconv.FormatFloat(float64(rapid.IntRange(0, 8).Draw(rt, "oldsupf"))/8, 'f', -1, 64)
			}
		}
	}
	pc.Ref = refm.Newick()
	pc.Cpus = []int{1, 2, 3, 4, 8, 16}[rapid.IntRange(0, 5).Draw(rt, "cpus")]
	pc.Tips = rapid.Bool().Draw(rt, "tips")
	pc.Identical = rapid.IntRange(0, 4).Draw(rt, "identical") == 0
	pc.Feed = rapid.SampledFrom([]string{"reader", "chan"}).Draw(rt, "feed")
	pc.Nexus = op.nexusFeed && pc.Feed == "reader" && rapid.IntRange(0, 3).Draw(rt, "nexusfeed") == 0
	pc.BufSz = []int{4096, 16, 64, 65536}[rapid.IntRange(0, 3).Draw(rt, "bufsz")]
	pc.Chunk = []int{4096, 1, 7, 64}[rapid.IntRange(0, 3).Draw(rt, "chunk")]
	nfaults := 0
	if op.faults && rapid.IntRange(0, 2).Draw(rt, "withfault") == 0 {
		nfaults = 1
		if op.maxFaults > 1 && rapid.IntRange(0, 2).Draw(rt, "several") == 0 {
			nfaults = rapid.IntRange(2, op.maxFaults).Draw(rt, "nfaults")
		}
	}
	for ; nfaults > 0; nfaults-- {
		kinds := []string{"foreign", "missing", "extra", "duptip", "malformed"}
		if pc.Feed == "chan" {
			kinds = append(kinds, "errrec")
		}
		if op.faultKinds != nil {
			kinds = op.faultKinds
		}
		kind := rapid.SampledFrom(kinds).Draw(rt, "faultkind")
		pos := rapid.IntRange(0, len(pc.Recs)).Draw(rt, "faultpos")
		src := base
		if len(models) > 0 {
			src = models[r.Intn(len(models))]
		}
		text := src.Newick()
		switch kind {
		case "foreign":
			text = replaceTip(text, tx[r.Intn(len(tx))], "FOREIGN")
			if a, b, ok := shiftedPair(tx, r); ok && rapid.Bool().Draw(rt, "shift") {
				// adversarial variant: two names exchanged for two others with the same concatenation (A,BC -> AB,C)
				text = replaceTip(replaceTip(src.Newick(), a[0], "#1#"), a[1], "#2#")
				text = strings.Replace(strings.Replace(text, "#1#", b[0], 1), "#2#", b[1], 1)
			} else if rapid.IntRange(0, 3).Draw(rt, "firstname") == 0 {
				// the name that sorts first replaced by another one that sorts first too: every other name keeps its rank
				st := append([]string(nil), tx...)
				sort.Strings(st)
				text = replaceTip(src.Newick(), st[0], "!"+st[0])
			}
		case "extra":
			victim := tx[r.Intn(len(tx))]
			text = replaceTip(text, victim, "("+victim+":0.5,EXTRA:0.5)")
		case "missing":
			m := src.Clone(nil)
			tips := []*RNode{}
			for _, x := range m.all() {
				if x.IsTip() && len(x.Parent.Children) > 2 {
					tips = append(tips, x)
				}
			}
			if len(tips) == 0 {
				kind = "foreign"
				text = replaceTip(text, tx[0], "FOREIGN")
			} else {
				v := tips[r.Intn(len(tips))]
				v.Parent.removeChild(v)
				text = m.Newick()
			}
		case "duptip":
			a := tx[r.Intn(len(tx))]
			b := tx[r.Intn(len(tx))]
			if a == b {
				b = tx[(r.Intn(len(tx)-1)+1+indexOf(tx, a))%len(tx)]
			}
			text = replaceTip(text, a, b)
		case "malformed":
			// drop one closing parenthesis
			if i := strings.Index(text, ")"); i >= 0 {
				text = text[:i] + text[i+1:]
			}
			if rapid.IntRange(0, 5).Draw(rt, "emptystmt") == 0 {
				text = ";" // a statement made of its terminator alone
			}
		case "errrec":
			text = ""
		}
		rec := Rec{Text: text, Fault: kind}
		pc.Recs = append(pc.Recs[:pos:pos], append([]Rec{rec}, pc.Recs[pos:]...)...)
	}
	if _, fk := pc.hasFault(); fk == "" && len(pc.Recs) > 0 && (pc.Algo == "fbp" || pc.Algo == "tbe") {
		pc.PriorRun = rapid.IntRange(0, 4).Draw(rt, "priorrun") == 0
	}
	pc.StaleIndex = rapid.IntRange(0, 5).Draw(rt, "staleindex") == 0
	if pc.Feed == "chan" && (pc.Algo == "fbp" || pc.Algo == "tbe") {
		pc.ZeroIds = rapid.IntRange(0, 5).Draw(rt, "zeroids") == 0
	}
	pc.Sched = genSched(rt)
	return pc
}

// shiftedPair looks for two names x < y adjacent in sorted order such that moving the first letter of y to the end of x
// gives two new names that are not taxa and keep the sorted concatenation of the whole set unchanged.
func shiftedPair(tx []string, r Rnd) (old, repl [2]string, ok bool) {
	sorted := append([]string(nil), tx...)
	sort.Strings(sorted)
	has := map[string]bool{}
	for _, t := range tx {
		has[t] = true
	}
	start := r.Intn(len(sorted))
	for k := 0; k < len(sorted)-1; k++ {
		i := (start + k) % (len(sorted) - 1)
		x, y := sorted[i], sorted[i+1]
		if len(y) < 2 {
			continue
		}
		nx, ny := x+y[:1], y[1:]
		if has[nx] || has[ny] || nx == ny || strings.ContainsAny(nx+ny, "():,;[]") {
			continue
		}
		// the new names must sort at the same two positions
		lo, hi := "", "\xff"
		if i > 0 {
			lo = sorted[i-1]
		}
		if i+2 < len(sorted) {
			hi = sorted[i+2]
		}
		if lo < nx && nx < ny && ny < hi {
			return [2]string{x, y}, [2]string{nx, ny}, true
		}
	}
	return
}

func indexOf(xs []string, x string) int {
	for i, y := range xs {
		if y == x {
			return i
		}
	}
	return -1
}
