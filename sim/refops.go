package sim

// Operations on the reference model used by workload generators (never by oracles of the operation
// they implement).

import (
	"strconv"
	"strings"
)

// Rnd is the only randomness the workload generators see; it is backed by rapid (one seeded, shrinkable
// choice source) or, in self-tests, by a seeded math/rand generator.
type Rnd interface{ Intn(n int) int }

func (n *RNode) Clone(parent *RNode) *RNode {
	c := &RNode{}
	*c = *n
	c.Parent = parent
	c.Children = nil
	for _, ch := range n.Children {
		c.Children = append(c.Children, ch.Clone(c))
	}
	return c
}

func (n *RNode) Newick() string {
	var b strings.Builder
	n.write(&b)
	b.WriteByte(';')
	return b.String()
}

func (n *RNode) write(b *strings.Builder) {
	if !n.IsTip() {
		b.WriteByte('(')
		for i, c := range n.Children {
			if i > 0 {
				b.WriteByte(',')
			}
			c.write(b)
		}
		b.WriteByte(')')
	}
	b.WriteString(n.Label)
	if n.HasLen && n.Parent != nil {
		b.WriteString(":" + strconv.FormatFloat(n.Len, 'f', -1, 64))
	}
}

func (n *RNode) all() []*RNode {
	out := []*RNode{n}
	for _, c := range n.Children {
		out = append(out, c.all()...)
	}
	return out
}

func (n *RNode) removeChild(c *RNode) {
	for i, x := range n.Children {
		if x == c {
			n.Children = append(n.Children[:i:i], n.Children[i+1:]...)
			return
		}
	}
}

// Contract removes the branch above inner node x (children move to the parent).
func Contract(x *RNode) {
	p := x.Parent
	if p == nil || x.IsTip() {
		return
	}
	p.removeChild(x)
	for _, c := range x.Children {
		c.Parent = p
		p.Children = append(p.Children, c)
	}
}

// Unroot makes the root at least trifurcating (if possible).
func Unroot(root *RNode) {
	for len(root.Children) == 2 {
		var inner *RNode
		for _, c := range root.Children {
			if !c.IsTip() {
				inner = c
			}
		}
		if inner == nil {
			return
		}
		other := root.Children[0]
		if other == inner {
			other = root.Children[1]
		}
		if inner.HasLen || other.HasLen {
			other.Len += inner.Len
			other.HasLen = true
		}
		Contract(inner)
	}
}

// RerootAt returns a new tree presenting the same unrooted tree rooted at inner node x.
func RerootAt(x *RNode) *RNode {
	// reverse the path from x to the root
	var path []*RNode
	for y := x; y != nil; y = y.Parent {
		path = append(path, y)
	}
	for i := len(path) - 1; i > 0; i-- {
		par, ch := path[i], path[i-1]
		par.removeChild(ch)
		// branch attributes live on the child end: move them to the old parent
		par.HasLen, par.Len, ch.HasLen, ch.Len = ch.HasLen, ch.Len, false, 0
		plabel := par.Label
		par.Label = ch.Label
		if ch.IsTip() {
			par.Label = plabel
		} else {
			ch.Label = ""
		}
		par.Parent = ch
		ch.Children = append(ch.Children, par)
	}
	x.Parent = nil
	return x
}

func Rotate(root *RNode, r Rnd) {
	for _, n := range root.all() {
		for i := len(n.Children) - 1; i > 0; i-- {
			j := r.Intn(i + 1)
			n.Children[i], n.Children[j] = n.Children[j], n.Children[i]
		}
	}
}

// SPR prunes a random subtree and regrafts it on a random branch outside of it (topology move on an
// unrooted, at least trifurcating-root tree). Lengths are kept on the moved branches.
func SPR(root *RNode, r Rnd) { sprWith(root, r, false) }

// RogueMove moves one tip somewhere else (a "rogue taxon": the typical difference between bootstrap trees).
func RogueMove(root *RNode, r Rnd) { sprWith(root, r, true) }

func sprWith(root *RNode, r Rnd, onlyTips bool) {
	nodes := root.all()
	var cands []*RNode
	for _, x := range nodes {
		if x.Parent != nil && (!onlyTips || x.IsTip()) {
			cands = append(cands, x)
		}
	}
	for try := 0; try < 20; try++ {
		x := cands[r.Intn(len(cands))]
		p := x.Parent
		if p == root && len(root.Children) <= 3 {
			continue
		}
		inX := map[*RNode]bool{}
		for _, y := range x.all() {
			inX[y] = true
		}
		var targets []*RNode
		for _, y := range nodes {
			if y.Parent != nil && !inX[y] && y != p {
				targets = append(targets, y)
			}
		}
		if len(targets) == 0 {
			continue
		}
		y := targets[r.Intn(len(targets))]
		// detach x
		p.removeChild(x)
		if p != root && len(p.Children) == 1 {
			// suppress p
			c := p.Children[0]
			if y == p {
				y = c
			}
			gp := p.Parent
			for i, z := range gp.Children {
				if z == p {
					gp.Children[i] = c
				}
			}
			c.Parent = gp
			if c.HasLen || p.HasLen {
				c.Len += p.Len
				c.HasLen = true
			}
			if y == p {
				y = c
			}
		}
		// attach on the branch above y
		yp := y.Parent
		if yp == nil {
			root.Children = append(root.Children, x)
			x.Parent = root
			return
		}
		mid := &RNode{Parent: yp}
		for i, z := range yp.Children {
			if z == y {
				yp.Children[i] = mid
			}
		}
		if y.HasLen {
			mid.HasLen, mid.Len = true, y.Len/2
			y.Len = y.Len / 2
		}
		y.Parent, x.Parent = mid, mid
		mid.Children = []*RNode{y, x}
		return
	}
}

// RandomTree builds a random tree on the given taxa with dyadic lengths.
func RandomTree(taxa []string, r Rnd, maxdeg int, withLen bool) *RNode {
	var subs []*RNode
	mk := func(n *RNode) *RNode {
		if withLen {
			n.HasLen, n.Len = true, float64(r.Intn(33))/16
			if r.Intn(6) == 0 {
				n.Len = 0 // exact zeros are frequent enough for two of them to meet (both root branches, a whole path)
			}
		}
		return n
	}
	for _, t := range taxa {
		subs = append(subs, mk(&RNode{Label: t}))
	}
	for len(subs) > 3 {
		k := 2
		if maxdeg > 2 {
			k += r.Intn(maxdeg - 1)
		}
		if len(subs)-k+1 < 3 {
			k = len(subs) - 2
		}
		n := mk(&RNode{})
		for j := 0; j < k; j++ {
			i := r.Intn(len(subs))
			subs[i].Parent = n
			n.Children = append(n.Children, subs[i])
			subs = append(subs[:i], subs[i+1:]...)
		}
		subs = append(subs, n)
	}
	root := &RNode{}
	for _, s := range subs {
		s.Parent = root
		root.Children = append(root.Children, s)
	}
	return root
}
